"""C02 — values produced by execution always have the statically expected type."""
from hypothesis import strategies as st

from vlib import exec_compare as xc
from vlib import gen_programs as gp
from vlib import interp
from vlib import ref_interp as ri
from vlib import ref_values as rv
from vlib import selfcheck
from vlib.harness import Inconclusive, Violation

PID = "C02"
RULE = ("the program family of C01 (type-directed well-typed programs with inputs of every type shape: nested pairs, "
        "unions, options, collections with composite keys) plus a contract sub-family run through Interpreter.run_code. "
        "Oracle: for every final stack slot the pytezos type (annotations stripped) equals the static type computed by "
        "the reference typechecker, and a deep walk of the value finds every component instance's class consistent "
        "with its parent's type argument (pair items, option item, or branch, list/set elements, map keys and values, "
        "ticket contents); the storage returned by run_code parses at the declared storage type. Non-trivial: a slot "
        "type of depth >= 2 or produced by MAP/UPDATE/GET_AND_UPDATE/CONS/EDIV/SPLIT/JOIN. Distinct = distinct case.")

PRODUCERS = {"MAP", "UPDATE", "GET_AND_UPDATE", "CONS", "EDIV", "SPLIT_TICKET", "JOIN_TICKETS", "ITER", "APPLY", "EXEC",
             "SUB_MUTEZ", "ISNAT", "UNPACK", "GET", "SLICE"}


def oracle(case):
    env = xc.env_from_json(case["env"])
    inputs, code = case["inputs"], case["code"]
    try:
        static = gp.types_after(code, [i["t"] for i in inputs])
        ref = xc.run_reference(inputs, code, env)
    except ri.IllTyped as e:
        return "illtyped:%s" % e
    if ref[0] != "ok":
        return ref[0]
    pcode = code
    if xc.has_prim(code, "LAMBDA_REC"):
        pcode = xc.swap_rec_bodies(code)  # C01's recorded finding (body stack order) must not hide the types from this check
    if case.get("session") is not None:  # REPL route: the program follows cells that failed (rolled-back state must not leak)
        items, err = xc.run_pytezos_session(inputs, pcode, env, case["session"])
        if items == "skip":
            return "session-skip"
    else:
        stepwise(case, inputs, code, pcode, env)  # types after every top-level instruction, not only at the end
        items, err = xc.run_pytezos(inputs, pcode, env)
    if err is not None:
        return "pytezos-failed"  # C01's subject
    known = "MAP-empty-type-change" in xc.LAST_TRACE
    if len(items) != len(static):
        raise Violation("the stack holds %d values, its static type has %d slots (%s); code %s" % (
            len(items), len(static), static, xc._short(code)), case,
            "known:map-empty-type-change" if known else "stack-depth:" + _blame(code))
    for i, (t, item) in enumerate(zip(static, items)):
        ty, _ = interp.read_item(item)
        if ty != t:
            raise Violation("slot %d has runtime type %s, static type %s; code %s" % (i, ty, t, xc._short(code)), case,
                            "known:map-empty-type-change" if known else "slot-type:" + _blame(code))
        errs = xc.deep_type_errors(item)
        if errs:
            raise Violation("slot %d (static type %s) holds inconsistent components: %s; code %s" % (
                i, t, errs[:3], xc._short(code)), case,
                "known:map-empty-type-change" if known else "component-type:" + _blame(code))
    return "ok"


def stepwise(case, inputs, code, pcode, env):
    """Runs the top-level instructions one at a time and compares the runtime types of all slots with the static type stack
    after each of them: a value of the wrong type is seen before a later instruction trips over it."""
    from pytezos.michelson.stack import MichelsonStack
    ctx = xc.pytezos_context(env)
    stack = MichelsonStack()
    stk, out, err = interp.run(xc.prelude(inputs), stack=stack, context=ctx)
    if err is not None:
        return
    m = ri.Machine(concrete=False, fuel=100000)
    sts = [(i["t"], ri.ABS) for i in inputs]
    for k, (ins, pins) in enumerate(zip(code, pcode)):
        try:
            sts = m.run([ins], sts)
        except (ri.Failed, ri.IllTyped, ri.Budget):
            return
        if "MAP-empty-type-change" in m.trace or xc.has_prim([ins], "MAP"):
            return  # the recorded finding about MAP over empty collections: judged at the end only, with its signature
        stk, out, err = interp.run([pins], stack=stack, context=ctx)
        if err is not None:
            return
        if len(stack.items) != len(sts):
            raise Violation("after instruction #%d %s the stack holds %d values, its static type has %d slots; code %s" % (
                k, ins.get("prim") if isinstance(ins, dict) else "{}", len(stack.items), len(sts), xc._short(code)), case,
                "stack-depth:" + _blame([ins]))
        for i, ((t, _), item) in enumerate(zip(sts, stack.items)):
            ty = interp.strip_annots(type(item).as_micheline_expr())
            if ty != t:
                raise Violation("after instruction #%d %s slot %d has runtime type %s, static type %s; code %s" % (
                    k, ins.get("prim") if isinstance(ins, dict) else "{}", i, ty, t, xc._short(code)), case, "slot-type:" + _blame([ins]))
            errs = xc.deep_type_errors(item)
            if errs:
                raise Violation("after instruction #%d slot %d (static type %s) holds inconsistent components: %s; code %s" % (
                    k, i, t, errs[:3], xc._short(code)), case, "component-type:" + _blame([ins]))


def _blame(code):
    names = gp.instr_names(code)
    for n in ("SPLIT_TICKET", "JOIN_TICKETS", "MAP", "EDIV", "GET_AND_UPDATE", "UPDATE", "UNPAIR", "APPLY", "EXEC", "CONS", "UNPACK"):
        if n in names:
            return n
    return "other"


def classify(v):
    if v.sig == "known:map-empty-type-change":
        return "C02-map-empty-type"
    return None


def replay(case):
    if case.get("mode") == "onchain":
        return oracle_onchain(case)
    if case.get("mode") == "contract":
        return oracle_contract(case)
    oracle(case)


def oracle_contract(case):
    """parameter P; storage S; code { CAR; <code>; NIL operation; PAIR } through Interpreter.run_code."""
    from pytezos.michelson.repl import Interpreter
    pt, st_t = case["param_t"], case["storage_t"]
    script = [{"prim": "parameter", "args": [pt]}, {"prim": "storage", "args": [st_t]},
              {"prim": "code", "args": [[{"prim": "CAR"}] + (xc.swap_rec_bodies(case["code"]) if xc.has_prim(case["code"], "LAMBDA_REC") else
                                                             case["code"]) + [{"prim": "NIL", "args": [rv.T("operation")]}, {"prim": "PAIR"}]]}]
    env = xc.env_from_json(case["env"])
    try:
        ref = xc.run_reference([{"t": pt, "v": case["param"]}], case["code"], env)
    except ri.IllTyped as e:
        return "illtyped:%s" % e
    if ref[0] != "ok" or len(ref[1]) != 1:
        return ref[0]
    from vlib import ref_crypto as rc
    res = Interpreter.run_code(parameter=case["param"], storage=case["storage"], script=script, output_mode="optimized",
                               amount=env["amount"], balance=env["balance"], now=env["now"], level=env["level"],
                               sender=rv.addr_str(env["sender"]), source=rv.addr_str(env["source"]),
                               chain_id=rc.tz_encode(env["chain_id"], "Net"), address=rv.addr_str(env["self_address"]),
                               min_block_time=env["min_block_time"])
    ops, storage, lazy, out, err = res
    if err is not None:
        if rv.contains_type(st_t, {"ticket"}) and err.args and err.args[0] == "END":
            raise Violation("run_code cannot return a storage of type %s that holds a ticket: %r (the code ran to its end)" % (
                st_t, err.args), case, "storage-ticket-end")
        return "pytezos-failed"
    known = "MAP-empty-type-change" in xc.LAST_TRACE
    if rv.contains_type(st_t, {"ticket"}):
        want = ri.value_to_micheline(st_t, ref[1][0][1], "optimized")
        if storage != want:
            raise Violation("run_code storage %s, reference %s (storage type %s)" % (storage, want, st_t), case, "storage-value:ticket")
        return "ok"
    try:
        got = rv.from_micheline(st_t, storage)
    except rv.Malformed as e:
        raise Violation("run_code returned storage %s which is not a value of the declared storage type %s (%s)" % (
            storage, st_t, e), case, "known:map-empty-type-change" if known else "storage-type")
    if got != ref[1][0][1]:
        raise Violation("run_code storage %s, reference %s" % (storage, rv.to_micheline(st_t, ref[1][0][1], "optimized")), case,
                        "known:map-empty-type-change" if known else "storage-value")
    return "ok"


@st.composite
def cases(draw, size, depth):
    force = None
    if draw(st.integers(0, 2)) == 0:  # focused: the first chunk kind is drawn uniformly, so every instruction family gets its share
        # kinds whose instructions build new runtime types (lambdas, collections, conversions) get a larger share
        force = [draw(st.sampled_from(gp.ALL_KINDS + ["lambda", "lambda", "lambda", "lambdarec", "mapconv", "mapconv", "setmap", "list", "build",
                                                      "oddlambda", "option_or", "comb"]))]
        size = (1, 3)
    prog = draw(gp.programs(n_inputs=(1, 3), size=size, depth=depth, force=force,
                            profile=draw(st.sampled_from(["core", "core", "collections", "collections", "tickets", "tickets", "tickets", "combs", "combs"]))))
    case = {"inputs": prog["inputs"], "code": prog["code"], "env": xc.env_to_json(draw(gp.env_strategy()))}
    if draw(st.integers(0, 4)) == 0:
        case["session"] = draw(st.lists(st.sampled_from(xc.FAILING_CELLS), min_size=1, max_size=2))
    return case


@st.composite
def contract_cases(draw, size, depth):
    tickets = draw(st.integers(0, 3)) == 0
    prog = draw(gp.programs(n_inputs=(1, 1), size=size, depth=depth, profile="tickets" if tickets else "core"))
    pt = prog["inputs"][0]["t"]
    out = gp.types_after(prog["code"], [pt])
    code = list(prog["code"])
    held = [j for j, t in enumerate(out or []) if rv.contains_type(t, {"ticket"}) and not rv.contains_type(t, {"lambda"})]
    if out is None:
        st_t = rv.T("unit")
    elif tickets and held:  # the contract stores a ticket-bearing value: storage option T, initially None
        j = held[0]
        code += [gp.P("DIG", gp.I(j)), gp.P("SOME")] + ([gp.P("DIP", [gp.P("DROP", gp.I(len(out) - 1))])] if len(out) > 1 else [])
        return {"mode": "contract", "param_t": pt, "param": prog["inputs"][0]["v"], "storage_t": rv.T("option", out[j]),
                "storage": {"prim": "None"}, "code": code, "env": xc.env_to_json(draw(gp.env_strategy()))}
    else:
        storable = [t for t in out if rv.is_pushable(t) and rv.is_storable(t) and not rv.contains_type(t, {"lambda"})]
        if not out or not storable:
            code.append(gp.P("DROP", gp.I(len(out))))
            code.append(gp.P("UNIT"))
            st_t = rv.T("unit")
        else:
            i = next(j for j, t in enumerate(out) if t == storable[0])
            code += [gp.P("DIG", gp.I(i))] + ([gp.P("DIP", [gp.P("DROP", gp.I(len(out) - 1))])] if len(out) > 1 else [])
            st_t = storable[0]
    from vlib import gen_types as gt
    return {"mode": "contract", "param_t": pt, "param": prog["inputs"][0]["v"], "storage_t": st_t,
            "storage": rv.to_micheline(st_t, draw(gt.values(st_t))), "code": code,
            "env": xc.env_to_json(draw(gp.env_strategy()))}


def _prop(case, stats):
    if case.get("mode") == "contract":
        kind = oracle_contract(case)
        label = "contract:" + kind.split(":")[0]
        deep = rv.type_depth(case["storage_t"]) >= 2
    else:
        kind = oracle(case)
        label = "stack:" + kind.split(":")[0]
        static = None
        try:
            static = gp.types_after(case["code"], [i["t"] for i in case["inputs"]])
        except ri.IllTyped:
            pass
        deep = bool(static) and any(rv.type_depth(t) >= 2 for t in static)
    if kind.startswith("illtyped"):
        stats.extra["generator_illtyped"] += 1
        return
    names = gp.instr_names(case["code"])
    stats.case(case, kind == "ok" and (deep or bool(names & PRODUCERS)), label,
               sample={"code": xc._short(case["code"])[:300]})


def onchain_cases():
    """GET / GET_AND_UPDATE on a big_map that lives on a (simulated) node, for key / value types whose literals look alike (a value
    that also parses at the key type must still come back at the value type)."""
    T = rv.T
    combos = [(T("nat"), T("int"), 7, 7), (T("int"), T("nat"), 7, 7), (T("nat"), T("mutez"), 7, 7), (T("nat"), T("timestamp"), 7, 7),
              (T("string"), T("address"), "a", None), (T("nat"), T("option", T("nat")), 7, ("Some", 7)), (T("bytes"), T("chain_id"), b"\x01\x02\x03\x04", b"\x01\x02\x03\x04"),
              (T("nat"), T("pair", T("nat"), T("int")), 7, (1, 2)), (T("string"), T("bytes"), "a", b"\x01")]
    out = []
    for kt, vt, k, v in combos:
        if v is None:
            v = rv.from_micheline(vt, {"string": "tz1Ke2h7sDdakHJQh8WX4Z372du1KChsksyU"})
        for ins in ("GET", "GET_AND_UPDATE-none", "GET_AND_UPDATE-some", "MEM"):
            out.append({"mode": "onchain", "kt": kt, "vt": vt, "k": rv.to_micheline(kt, k), "v": rv.to_micheline(vt, v), "ins": ins})
    return out


def oracle_onchain(case):
    from hashlib import blake2b
    from pytezos.michelson.stack import MichelsonStack
    from pytezos.michelson.types.base import MichelsonType
    from vlib import fake_node
    from vlib import ref_crypto as rc
    kt, vt = case["kt"], case["vt"]
    node = fake_node.FakeNode()
    key = rv.from_micheline(kt, case["k"])
    h = rc.tz_encode(blake2b(rv.pack(kt, key, legacy=True), digest_size=32).digest(), "expr")
    node.big_maps[5] = {h: rv.to_micheline(vt, rv.from_micheline(vt, case["v"]), "optimized")}
    ctx = interp.new_context()
    ctx.shell = fake_node.shell(node)
    bm = MichelsonType.match(rv.T("big_map", kt, vt)).from_micheline_value({"int": "5"})
    bm.attach_context(ctx)
    stack = MichelsonStack()
    stack.push(bm)
    optv = rv.T("option", vt)
    ins = case["ins"]
    if ins == "GET":
        code, want_t = [interp.push(kt, case["k"]), {"prim": "GET"}], optv
    elif ins == "MEM":
        code, want_t = [interp.push(kt, case["k"]), {"prim": "MEM"}], rv.T("bool")
    else:
        new = {"prim": "None"} if ins.endswith("none") else {"prim": "Some", "args": [case["v"]]}
        code, want_t = [interp.push(optv, new), interp.push(kt, case["k"]), {"prim": "GET_AND_UPDATE"}], optv
    stk, out, err = interp.run(code, stack=stack, context=ctx)
    if err is not None:
        raise Violation("%s on an on-chain big_map %s -> %s failed: %r" % (ins, kt, vt, err.args), case, "onchain:raise:" + ins)
    ty, m = interp.read_item(stk.items[0])
    if ty != want_t:
        raise Violation("%s on an on-chain big_map (key %s, value %s) left a value of type %s, the typing rule gives %s" % (
            ins, kt, vt, ty, want_t), case, "onchain:type:" + ins)
    errs = xc.deep_type_errors(stk.items[0])
    if errs:
        raise Violation("%s on an on-chain big_map: %s" % (ins, errs[:2]), case, "onchain:deep:" + ins)
    if ins != "MEM" and interp.parse_output(optv, m, "result") != ("Some", rv.from_micheline(vt, case["v"])):
        raise Violation("%s on an on-chain big_map returned %s, on chain: %s" % (ins, m, case["v"]), case, "onchain:value:" + ins)


def _prop_onchain(case, stats):
    oracle_onchain(case)
    stats.case(case, True, "onchain:" + case["ins"], sample={"key_type": case["kt"], "value_type": case["vt"]})


def run(h):
    h.run_enum(onchain_cases(), _prop_onchain, shards=4)
    passed, skipped = selfcheck.ref_interp_vectors()
    h.coverage_extra["reference_validated"] = "reference interpreter reproduces %d Octez opcode vectors" % passed
    size, depth = ((1, 8), 2) if h.quick else ((1, 16), 3)
    h.run_given(lambda: cases(size, depth), _prop, h.n(70, 1500), shards=16, classify=classify, name="stack")
    h.run_given(lambda: contract_cases(size, depth), _prop, h.n(14, 400), shards=16, classify=classify, name="contract")
    # every arithmetic instruction on boundary operands of every sign (results such as `None : option nat` exist only for some signs)
    from checks.c01 import arith_cases
    h.run_enum(arith_cases(), _prop, shards=16, classify=classify)
    if h.stats.extra.get("generator_illtyped", 0) > 0.05 * max(1, h.stats.evaluations):
        raise Inconclusive("too many ill-typed programs generated")
