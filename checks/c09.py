"""C09 — Base58Check typed encodings are unambiguous and invertible."""
from hypothesis import strategies as st

from vlib import ref_crypto as rc
from vlib.harness import Violation

PID = "C09"
RULE = ("for every row of pytezos' base58 table (enumerated exhaustively): payloads all-zero / all-ones / random of the "
        "row's length, payloads containing the binary prefix of their own or another kind, runs of zeros at either end (the two extremes prove prefix+length for all 2^(8n) payloads by monotonicity of base58); "
        "payloads whose encoding begins with another kind's longer human prefix (block hashes reading BLpk.. / BLsk.. / BLsig..); "
        "corrupted strings: one character changed/dropped/added or replaced by its look-alike outside the alphabet (0 O l I), human prefix swapped with another row's, re-encoded "
        "under a neighbouring binary prefix with a valid checksum, payload length +-1 with valid checksum, trailing four bytes "
        "related to the checksum but different (other windows of the double-SHA256 digest, single SHA256, reversed, rotated), random "
        "base58 strings. Oracle: own base58check + Tezos prefix registry: encode has the documented prefix/length "
        "and decodes back; reference-invalid => base58_decode raises and every is_* predicate is false; no string is "
        "valid for two kinds; every ordered pair of kinds is decoded back to back (no state may leak between calls); hex spellings "
        "of valid encodings are rejected. Non-trivial: corrupted string still has a valid checksum, or payload is an extreme. "
        "Distinct = distinct (row, string).")

IS_FUNCS = ["is_pkh", "is_l2_pkh", "is_sig", "is_bh", "is_ogh", "is_kt", "is_sr", "is_public_key", "is_chain_id",
            "is_address", "is_txr_address"]


def table():
    from pytezos.crypto.encoding import base58_encodings
    return [(r[0].decode(), r[1], bytes(r[2]), r[3], r[4]) for r in base58_encodings]


def check_valid(row, payload, case):
    """Encoding of `payload` under table row `row`."""
    from pytezos.crypto import encoding as enc
    human, elen, binp, plen, kind = row
    try:
        s = enc.base58_encode(payload, human.encode()).decode()
    except Exception as e:
        raise Violation("base58_encode(%s, %d-byte payload) raised %r" % (human, len(payload), e), case,
                        "encode-raise:" + human)
    if not s.startswith(human) or len(s) != elen:
        raise Violation("kind %r (%s): encoding %s… has length %d / prefix %r, documented %d / %r"
                        % (kind, human, s[:8], len(s), s[:len(human)], elen, human), case, "doc-mismatch:" + human)
    ref = rc.b58check_encode(binp + payload)
    if s != ref:
        raise Violation("base58_encode(%s) = %s, reference %s" % (human, s, ref), case, "encode-mismatch:" + human)
    try:
        back = enc.base58_decode(s.encode())
    except Exception as e:
        raise Violation("base58_decode(%s) raised %r on a valid %s" % (s, e, kind), case, "decode-raise:" + human)
    if back != payload:
        raise Violation("round trip of %s (%s): got %s want %s" % (s, kind, back.hex(), payload.hex()), case,
                        "roundtrip:" + human)
    rd = rc.tz_decode(s)
    if rd is None or rd[1] != payload:
        raise Violation("row %s/%d (%s) is not a registered Tezos encoding (reference decodes %s as %r)"
                        % (human, plen, kind, s, rd), case, "not-in-registry:" + human)
    return s


def check_string(s, case):
    """Arbitrary string: reference verdict vs pytezos."""
    from pytezos.crypto import encoding as enc
    rd = rc.tz_decode(s)
    try:
        got = enc.base58_decode(s.encode())
        raised = False
    except Exception:
        got, raised = None, True
    if rd is None:
        if not raised:
            raw = rc.b58check_decode(s)
            why = "bad checksum" if raw is None else "binary prefix %s / %d bytes is no registered kind" % (
                raw[:5].hex(), len(raw))
            raise Violation("base58_decode accepted %r (%s) -> %s" % (s, why, got.hex()), case,
                            "accepts-invalid:" + ("checksum" if raw is None else "prefix-or-length"))
        for f in IS_FUNCS:
            try:
                v = getattr(enc, f)(s)
            except Exception as e:
                raise Violation("%s(%r) raised %r" % (f, s, e), case, "is-raise:" + f)
            if v:
                raise Violation("%s(%r) is true for an invalid encoding" % (f, s), case, "is-true-invalid:" + f)
    else:
        if raised or got != rd[1]:
            raise Violation("valid %s encoding %r: base58_decode -> %r, reference %s"
                            % (rd[0], s, None if raised else got.hex(), rd[1].hex()), case, "rejects-valid:" + rd[0])
    return rd


def oracle(case):
    rows = table()
    if case["mode"] == "pair":
        return check_order(rows, case)
    if case["mode"] == "valid":
        row = rows[case["row"]]
        p = bytes.fromhex(case["payload"])
        if len(p) != row[3]:  # replay of a case recorded against a table row whose payload length has since changed
            p = (p + p[-1:] * row[3])[:row[3]]
        return check_valid(row, p, case)
    if case["mode"] == "table":
        return check_table(case)
    return check_string(case["s"], case)


def check_order(rows, case):
    from pytezos.crypto import encoding as enc
    i, j = case["pair"]
    for k in (i, j, i):
        human, elen, binp, plen, kind = rows[k]
        payload = bytes((k * 37 + n * 11 + 5) % 256 for n in range(plen))
        try:
            got = enc.base58_decode(rc.b58check_encode(binp + payload).encode())
        except Exception as e:
            raise Violation("base58_decode of a valid %s failed in the sequence %s: %r" % (human, [rows[x][0] for x in (i, j, i)], e), case,
                            "decode-order")
        if got != payload:
            raise Violation("base58_decode of a valid %s returned another payload in a sequence" % human, case, "decode-order-value")


def check_table(case):
    rows = table()
    # no string can match two rows (human prefix + length), no byte string two rows (binary prefix + length)
    for i, a in enumerate(rows):
        for b in rows[i + 1:]:
            if a[1] == b[1] and (a[0].startswith(b[0]) or b[0].startswith(a[0])):
                raise Violation("rows %s and %s accept the same strings" % (a[:2], b[:2]), case, "ambiguous-human")
            if len(a[2]) + a[3] == len(b[2]) + b[3] and (a[2].startswith(b[2]) or b[2].startswith(a[2])):
                raise Violation("rows %s and %s share binary prefix/length" % (a[0], b[0]), case, "ambiguous-binary")
    ref = {(h, p): (l, b) for h, l, b, p in rc.PREFIXES}
    for human, elen, binp, plen, kind in rows:
        if (human, plen) not in ref or ref[(human, plen)] != (elen, binp):
            raise Violation("row (%s, %d, %s, %d) '%s' differs from the Tezos registry entry %s"
                            % (human, elen, list(binp), plen, kind, ref.get((human, plen))
                               or [r for r in rc.PREFIXES if r[0] == human]), case, "registry-row:" + human)


def replay(case):
    oracle(case)


def _mutations(draw, s, rows):
    kind = draw(st.sampled_from(["chg", "chg", "drop", "add", "swap-human", "near-bin", "len+1", "len-1", "resum", "pad", "pad", "hex", "cksum", "cksum", "alike", "alike"]))
    raw = rc.b58check_decode(s)
    if kind == "chg":
        i = draw(st.integers(0, len(s) - 1))
        c = draw(st.sampled_from(rc.ALPHABET + "0OIl"))
        return kind, s[:i] + c + s[i + 1:]
    if kind == "alike":  # a character replaced by its look-alike outside the alphabet (0 / O for o, l / I for 1): not base58 at all
        pos = [i for i, c in enumerate(s) if c in "o1"]
        if pos:
            i = draw(st.sampled_from(pos))
            return kind, s[:i] + draw(st.sampled_from("0O" if s[i] == "o" else "lI")) + s[i + 1:]
        i = draw(st.integers(0, len(s) - 1))
        return kind, s[:i] + draw(st.sampled_from("0OIl")) + s[i + 1:]
    if kind == "cksum":  # four trailing bytes related to the right checksum, but not it
        import hashlib
        d1 = hashlib.sha256(raw).digest()
        d2 = hashlib.sha256(d1).digest()
        good = d2[:4]
        k = draw(st.integers(1, 28))
        cands = [d2[k:k + 4], d2[-4:], good[::-1], d1[:4], hashlib.sha256(hashlib.sha256(raw[1:]).digest()).digest()[:4],
                 good[1:] + good[:1], bytes([good[0] ^ 0x80]) + good[1:], good[:3] + bytes([(good[3] + 1) % 256]), b"\x00" * 4,
                 hashlib.blake2b(raw, digest_size=4).digest()]
        c = draw(st.sampled_from(cands[:2] * 3 + cands))
        if c == good:
            c = bytes([c[0] ^ 1]) + c[1:]
        return kind, rc.b58encode(raw + c)
    if kind == "hex":  # the hexadecimal spelling of a valid encoding (some helpers are hex-tolerant): not an encoding of any kind
        h = s.encode().hex()
        return kind, draw(st.sampled_from([h, "0x" + h, h.upper()]))
    if kind == "pad":  # characters outside the base58 alphabet (whitespace first) around / inside a valid encoding
        junk = draw(st.sampled_from([" ", "\n", "\t", "\r\n", "\x00", "  ", "\x0b", "\x0c", "\u00a0", "0", "_", "=", "\u2003"]))
        where = draw(st.sampled_from(["end", "end", "start", "both", "mid"]))
        if where == "end":
            return kind, s + junk
        if where == "start":
            return kind, junk + s
        if where == "both":
            return kind, junk + s + junk
        i = draw(st.integers(1, len(s) - 1))
        return kind, s[:i] + junk + s[i:]
    if kind == "drop":
        i = draw(st.integers(0, len(s) - 1))
        return kind, s[:i] + s[i + 1:]
    if kind == "add":
        i = draw(st.integers(0, len(s)))
        return kind, s[:i] + draw(st.sampled_from(rc.ALPHABET)) + s[i:]
    if kind == "swap-human":
        other = draw(st.sampled_from(rows))
        return kind, other[0] + s[len(other[0]):]
    if kind == "near-bin":  # keep payload, move the binary prefix a little, valid checksum
        row = draw(st.sampled_from(rows))
        binp = bytearray(raw[:len(row[2])])
        j = draw(st.integers(0, len(binp) - 1))
        binp[j] = (binp[j] + draw(st.sampled_from([1, -1, 2, -2, 16, 128]))) % 256
        return kind, rc.b58check_encode(bytes(binp) + raw[len(binp):])
    if kind == "len+1":
        return kind, rc.b58check_encode(raw + bytes([draw(st.integers(0, 255))]))
    if kind == "len-1":
        return kind, rc.b58check_encode(raw[:-1])
    # valid checksum over a payload with one flipped bit: still a valid encoding of a *different* payload
    i = draw(st.integers(0, len(raw) - 1))
    b = bytearray(raw)
    b[i] ^= 1 << draw(st.integers(0, 7))
    return kind, rc.b58check_encode(bytes(b))


LOOKALIKE = {}


def _lookalike_payloads(rows):
    """For every row whose human prefix is a proper prefix of another row's: payloads whose valid encoding under this row starts with
    that longer prefix (e.g. block hashes B... that read BLpk...). Found by fixing the leading characters and solving for the number."""
    for i, (human, elen, binp, plen, kind) in enumerate(rows):
        out = []
        for (h2, e2, b2, p2, k2) in rows:
            if h2 != human and h2.startswith(human) and len(h2) <= elen:
                lo = rc.b58decode(h2 + "1" * (elen - len(h2)))
                hi = rc.b58decode(h2 + "z" * (elen - len(h2)))
                if lo is None or hi is None:
                    continue
                total = len(binp) + plen + 4
                lo_i, hi_i = int.from_bytes(lo.rjust(total, b"\x00"), "big"), int.from_bytes(hi.rjust(total, b"\x00"), "big")
                for frac in (0.1, 0.37, 0.5, 0.83):
                    raw = (lo_i + int((hi_i - lo_i) * frac)).to_bytes(total, "big")
                    if raw[:len(binp)] != binp:
                        continue
                    payload = raw[len(binp):len(binp) + plen]
                    if rc.b58check_encode(binp + payload).startswith(h2):
                        out.append(payload)
        if out:
            LOOKALIKE[i] = out


def run(h):
    rows = table()
    _lookalike_payloads(rows)
    h.coverage_extra["lookalike_payloads"] = {rows[i][0]: len(v) for i, v in LOOKALIKE.items()}
    # (d) + registry comparison once
    h.run_enum([{"mode": "table"}], lambda c, s: (oracle(c), s.case(c, True, "table"))[1], shards=1)

    def valid_for(i):
        plen = rows[i][3]

        @st.composite
        def s(draw):
            mode = draw(st.integers(0, 8))
            if mode == 8 and LOOKALIKE.get(i):   # the encoding of this payload begins with the (longer) human prefix of another kind
                p = draw(st.sampled_from(LOOKALIKE[i]))
            elif mode == 0:
                p = b"\x00" * plen
            elif mode == 1:
                p = b"\xff" * plen
            elif mode in (2, 3):  # the payload contains binary prefixes (its own kind's, or another kind's), once or repeatedly
                p = bytearray(draw(st.binary(min_size=plen, max_size=plen)))
                for _ in range(draw(st.integers(1, 3))):
                    pre = rows[i][2] if draw(st.integers(0, 2)) else draw(st.sampled_from(rows))[2]
                    pre = pre[:plen]
                    at = draw(st.sampled_from([0, 0, plen - len(pre)]) | st.integers(0, plen - len(pre)))
                    p[at:at + len(pre)] = pre
                p = bytes(p)
            elif mode == 4:  # runs of zeros / one repeated byte at either end
                k = draw(st.integers(1, plen))
                fill = draw(st.sampled_from([b"\x00", b"\x00", b"\xff", b" ", b"1"]))
                body = draw(st.binary(min_size=plen - k, max_size=plen - k))
                p = fill * k + body if draw(st.booleans()) else body + fill * k
            else:
                p = draw(st.binary(min_size=plen, max_size=plen))
            return {"mode": "valid", "row": i, "payload": p.hex()}
        return s()

    def prop_valid(case, stats):
        oracle(case)
        p = bytes.fromhex(case["payload"])
        ext = p in (b"\x00" * len(p), b"\xff" * len(p))
        own = rows[case["row"]][2] in p
        ext = ext or own
        stats.case(case, ext, "valid:" + ("extreme" if not own else "contains-own-prefix") if ext else "valid:random",
                   sample={"kind": rows[case["row"]][4], "payload": case["payload"][:16] + "…"})

    # decoding one kind right after another: every ordered pair of table rows, on one process (no state may leak between calls)
    def prop_pair(case, stats):
        from pytezos.crypto import encoding as enc
        (i, j) = case["pair"]
        for k in (i, j, i):
            human, elen, binp, plen, kind = rows[k]
            payload = bytes((k * 37 + n * 11 + 5) % 256 for n in range(plen))
            sgood = rc.b58check_encode(binp + payload)
            try:
                got = enc.base58_decode(sgood.encode())
            except Exception as e:
                raise Violation("base58_decode of a valid %s failed right after decoding a %s: %r" % (
                    human, rows[i][0] if k == j else rows[j][0], e), case, "decode-order:%s-after-%s" % (human, rows[i][0] if k == j else rows[j][0]))
            if got != payload:
                raise Violation("base58_decode of a valid %s returned another payload after decoding a %s" % (human, rows[i][0]), case,
                                "decode-order-value")
        stats.case(case, rows[i][0].startswith(rows[j][0]) or rows[j][0].startswith(rows[i][0]), "ordered-pair",
                   sample={"first": rows[i][0], "then": rows[j][0]})

    h.run_enum([{"mode": "pair", "pair": [i, j]} for i in range(len(rows)) for j in range(len(rows)) if i != j], prop_pair, shards=16)

    h.exhaustive = True
    h.coverage_extra["exhaustive_subdomain"] = ("all %d table rows; min and max payload of each row (=> prefix and "
                                                "length for every payload, by monotonicity)" % len(rows))
    h.run_enum_given(list(range(len(rows))), valid_for, prop_valid, reps=h.n(12, 300), shards=16)
    # the extremes deterministically (do not rely on hypothesis drawing them)
    ext = [{"mode": "valid", "row": i, "payload": (b * rows[i][3]).hex()} for i in range(len(rows))
           for b in (b"\x00", b"\xff")]
    h.run_enum(ext, prop_valid, shards=4)
    # ... and the payloads whose encoding starts with another kind's human prefix
    h.run_enum([{"mode": "valid", "row": i, "payload": pl.hex()} for i, v in LOOKALIKE.items() for pl in v], prop_valid, shards=2)

    def corrupt_for(i):
        human, elen, binp, plen, kind = rows[i]

        @st.composite
        def s(draw):
            p = draw(st.binary(min_size=plen, max_size=plen))
            good = rc.b58check_encode(binp + p)
            k, bad = _mutations(draw, good, rows)
            return {"mode": "string", "s": bad, "from": human, "mut": k}
        return s()

    def prop_corrupt(case, stats):
        rd = oracle(case)
        valid_sum = rc.b58check_decode(case["s"]) is not None
        stats.case(case, valid_sum, "corrupt:%s:%s" % (case["mut"], "ref-valid" if rd else "ref-invalid"),
                   sample={"s": case["s"], "from": case["from"], "mut": case["mut"]})

    h.run_enum_given(list(range(len(rows))), corrupt_for, prop_corrupt, reps=h.n(40, 1500), shards=16)

    def random_strings():
        return st.builds(lambda t: {"mode": "string", "s": t, "from": "-", "mut": "random"},
                         st.text(alphabet=rc.ALPHABET, min_size=0, max_size=60)
                         | st.builds(lambda b: rc.b58check_encode(b), st.binary(min_size=0, max_size=70)))

    h.run_given(random_strings, prop_corrupt, h.n(300, 6000), shards=2 if h.quick else 16, name="random")
