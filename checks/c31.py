"""C31 — operation list / list-list / payload hashes follow the Tezos Merkle construction."""
from hypothesis import strategies as st

from vlib import ref_crypto as rc
from vlib.harness import Violation

PID = "C31"
RULE = ("leaf lists of every length 0..130 (quick) / 0..1100 (thorough), enumerated exhaustively by length, "
        "with hypothesis-drawn 32-byte leaves (random, all-zero, all-ones, duplicates of the last leaf); "
        "list-of-lists (the empty one included) and (predecessor, round) for the LLo / payload hashes; hashes handed over as list, tuple, iterator or generator; oracle = independent Merkle "
        "root (pad with last leaf to power of two, Blake2b-256) + own base58check. Non-trivial: length >= 3 "
        "and not a power of two. Distinct = distinct (lengths, leaves) case.")


def _o(h: bytes) -> str:
    return rc.tz_encode(h, "o")


def oracle(case):
    from pytezos.crypto.hash import block_payload_hash, operation_list_hash, operation_list_list_hash
    lists = [[bytes.fromhex(x) for x in l] for l in case["lists"]]
    form = case.get("form", "list")

    def arg(xs):   # the collection of hashes as the caller may hold it
        xs = list(xs)
        return {"list": xs, "tuple": tuple(xs), "iter": iter(xs), "gen": (x for x in xs)}[form]
    # no passes at all
    want0 = rc.tz_encode(rc.merkle_root([]), "LLo")
    try:
        got0 = operation_list_list_hash([])
    except Exception as e:
        raise Violation("operation_list_list_hash([]) raised %r" % (e,), case, "LLo-empty-raise")
    if got0 != want0:
        raise Violation("operation_list_list_hash([]) = %s, the hash of the empty list is %s" % (got0, want0), case, "LLo-empty")
    # operation list hash of the first list
    for leaves in lists:
        want = rc.tz_encode(rc.merkle_root(leaves), "Lo")
        try:
            got = operation_list_hash(arg(_o(x) for x in leaves))
        except Exception as e:
            raise Violation("operation_list_hash raised %r on %d leaves (given as %s)" % (e, len(leaves), form), case, "Lo-raise")
        if got != want:
            raise Violation("operation_list_hash of %d leaves (given as %s): got %s want %s" % (len(leaves), form, got, want), case,
                            "Lo-mismatch")
    want = rc.tz_encode(rc.merkle_root([rc.merkle_root(l) for l in lists]), "LLo")
    try:
        got = operation_list_list_hash(arg(arg(_o(x) for x in l) for l in lists))
    except Exception as e:
        raise Violation("operation_list_list_hash raised %r" % (e,), case, "LLo-raise")
    if got != want:
        raise Violation("operation_list_list_hash lens=%s: got %s want %s" % ([len(l) for l in lists], got, want),
                        case, "LLo-mismatch")
    pred = bytes.fromhex(case["pred"])
    rnd = case["round"]
    flat = lists[0]
    want = rc.tz_encode(rc.blake2b_32(pred + rnd.to_bytes(4, "big") + rc.merkle_root(flat)), "vh")
    try:
        got = block_payload_hash(rc.tz_encode(pred, "B"), rnd, arg(_o(x) for x in flat))
    except Exception as e:
        raise Violation("block_payload_hash raised %r" % (e,), case, "vh-raise")
    if got != want:
        raise Violation("block_payload_hash len=%d round=%d: got %s want %s" % (len(flat), rnd, got, want), case,
                        "vh-mismatch")


def replay(case):
    oracle(case)


def _nontrivial(n):
    return n >= 3 and (n & (n - 1)) != 0


hash32 = st.one_of(st.binary(min_size=32, max_size=32), st.sampled_from([b"\x00" * 32, b"\xff" * 32]))


@st.composite
def leaves_of(draw, n):
    mode = draw(st.integers(0, 3))
    if n == 0:
        return []
    if mode == 0:  # duplicates of the last leaf at the end (padding must not be confused with real leaves)
        x = draw(hash32)
        k = draw(st.integers(1, n))
        return [draw(hash32) for _ in range(n - k)] + [x] * k
    return [draw(hash32) for _ in range(n)]


def run(h):
    max_len = 130 if h.quick else 1100
    reps = 2 if h.quick else 2
    h.exhaustive = True
    h.coverage_extra["exhaustive_subdomain"] = "every list length 0..%d (leaf values sampled)" % max_len

    @st.composite
    def case_for(draw, n):
        first = draw(leaves_of(n))
        others = [draw(leaves_of(draw(st.integers(0, 9)))) for _ in range(draw(st.integers(0, 3)))]
        return {"lists": [[x.hex() for x in first]] + [[x.hex() for x in l] for l in others],
                "pred": draw(hash32).hex(), "form": draw(st.sampled_from(["list", "list", "tuple", "iter", "gen"])),
                "round": draw(st.sampled_from([0, 1, 2, 255, 256, 2 ** 31 - 1]) | st.integers(0, 2 ** 31 - 1))}

    lengths = list(range(0, max_len + 1))

    def prop(case, stats):
        n = len(case["lists"][0])
        oracle(case)
        stats.case({"n": n, "c": case}, _nontrivial(n), "len=%s" % ("0" if n == 0 else "1" if n == 1 else
                   "pow2" if n & (n - 1) == 0 else "other"),
                   sample={"lens": [len(l) for l in case["lists"]], "round": case["round"],
                           "first_leaf": case["lists"][0][0] if n else None})

    h.run_enum_given(lengths, case_for, prop, reps=reps, shards=16)
    h.coverage_extra["lengths_enumerated"] = h.stats.extra.get("keys_done", 0)
    if h.stats.extra.get("keys_done", 0) != len(lengths):
        h.exhaustive = False
