"""C14 — sets and maps behave like sorted dictionaries under any update history."""
from hypothesis import strategies as st
from hypothesis.stateful import RuleBasedStateMachine, initialize, invariant, precondition, rule

from vlib import gen_types as gt
from vlib import interp
from vlib import ref_values as rv
from vlib.harness import Violation, arm_watchdog

PID = "C14"
RULE = ("rule-based state machine: a comparable key type (leaf or composite: pair/option/or/comb, incl. address, key_hash, "
        "key, bool, unit) and a universe of 3..8 keys near each other are drawn; rules = set UPDATE (add/remove), map "
        "UPDATE (insert/replace/remove), GET_AND_UPDATE, MEM, GET, SIZE, MAP (value transform), ITER (visit order), "
        "literal construction (sorted / unsorted / duplicate), construction from Python objects given in arbitrary order, keys delivered as "
        "pushed literals or as DUP copies, DUP that leaves the original below (it must never change while its "
        "copy is updated), all executed as instructions on one live stack. Oracle: "
        "Python dict/set model + reference order; after every step the real collections are strictly increasing in the "
        "reference order and equal the model; observations agree; bad literals are rejected and leave the stack "
        "unchanged. Non-trivial history: >=3 updates including a removal and a re-insert on >=2 distinct keys. "
        "Distinct = distinct history.")

VT = rv.T("nat")
# value types of the map under test; every one except nat has "falsy" inhabitants (False, "", 0x, None, {}) that a careless
# `if value:` would confuse with "no binding"
VTS = {"nat": rv.T("nat"), "bool": rv.T("bool"), "string": rv.T("string"), "bytes": rv.T("bytes"),
       "option": rv.T("option", rv.T("nat")), "list": rv.T("list", rv.T("nat"))}


def val_of(vname, n):
    """Reference value of the chosen value type for the small integer n drawn by the rule."""
    if vname == "nat":
        return n
    if vname == "bool":
        return n % 2 == 1
    if vname == "string":
        return "" if n % 3 == 0 else "s%d" % n
    if vname == "bytes":
        return b"" if n % 3 == 0 else bytes([n])
    if vname == "option":
        return None if n % 3 == 0 else ("Some", n)
    return [] if n % 3 == 0 else [n, n + 1][:1 + n % 2]


# MAP body (after CDR) and the same transformation on reference values
TRANSFORM = {
    "nat": ([{"prim": "PUSH", "args": [{"prim": "nat"}, {"int": "1"}]}, {"prim": "ADD"}], lambda v: v + 1),
    "bool": ([{"prim": "NOT"}], lambda v: not v),
    "string": ([{"prim": "PUSH", "args": [{"prim": "string"}, {"string": "x"}]}, {"prim": "CONCAT"}], lambda v: "x" + v),
    "bytes": ([{"prim": "PUSH", "args": [{"prim": "bytes"}, {"bytes": "00"}]}, {"prim": "CONCAT"}], lambda v: b"\x00" + v),
    "option": ([{"prim": "IF_NONE", "args": [[{"prim": "PUSH", "args": [{"prim": "nat"}, {"int": "7"}]}, {"prim": "SOME"}],
                                             [{"prim": "DROP"}, {"prim": "NONE", "args": [{"prim": "nat"}]}]]}],
               lambda v: ("Some", 7) if v is None else None),
    "list": ([{"prim": "PUSH", "args": [{"prim": "nat"}, {"int": "9"}]}, {"prim": "CONS"}], lambda v: [9] + v),
}


def _ts(t):
    return t["prim"] if not rv.targs(t) else "(%s %s)" % (t["prim"], " ".join(_ts(a) for a in rv.targs(t)))


def make_machine(stats, depth):
    class M(RuleBasedStateMachine):
        def __init__(self):
            super().__init__()
            self.hist = []
            self.ready = False

        @initialize(data=st.data())
        def init(self, data):
            arm_watchdog()
            from pytezos.michelson.stack import MichelsonStack
            self.kt = data.draw(gt.comparable_types(depth), label="key type")
            base = data.draw(gt.values(self.kt))
            keys = [base]
            for _ in range(data.draw(st.integers(2, 7))):
                keys.append(data.draw(gt.near(self.kt, data.draw(st.sampled_from(keys)))))
            self.keys = rv.sort_values(self.kt, gt._consistent(self.kt, keys))
            self.sstack, self.mstack = MichelsonStack(), MichelsonStack()
            self.ctx = interp.new_context()
            self.vname = data.draw(st.sampled_from(sorted(VTS)), label="value type")
            self.vt = VTS[self.vname]
            self.set_t, self.map_t = rv.T("set", self.kt), rv.T("map", self.kt, self.vt)
            self.hist.append({"init": _ts(self.kt), "keys": [rv.to_micheline(self.kt, k) for k in self.keys], "vt": self.vname})
            self._run(self.sstack, [{"prim": "EMPTY_SET", "args": [self.kt]}], "EMPTY_SET")
            self._run(self.mstack, [{"prim": "EMPTY_MAP", "args": [self.kt, self.vt]}], "EMPTY_MAP")
            self.mset, self.mmap = set(), {}
            self.s_snaps, self.m_snaps = [], []
            self.updates, self.removed, self.reinserted, self.touched = 0, set(), False, set()
            self.ready = True

        # -- helpers --
        def _case(self):
            return {"history": self.hist}

        def _run(self, stack, code, what, expect_fail=False):
            before = len(stack.items)
            stk, out, err = interp.run(code, stack=stack, context=self.ctx)
            if expect_fail:
                if err is None:
                    raise Violation("%s was accepted (key type %s)" % (what, _ts(self.kt)), self._case(), "accepted:" + what.split(" ")[0])
                return None
            if err is not None:
                raise Violation("%s failed: %r (key type %s, history %d steps)" % (what, err.args, _ts(self.kt), len(self.hist)),
                                self._case(), "raise:" + what.split(" ")[0])
            return stk

        def _hold(self, which):
            if which == "set":
                if len(self.s_snaps) >= 2:
                    return
                self._run(self.sstack, [{"prim": "DUP"}], "set DUP")
                self.s_snaps.insert(0, set(self.mset))
            else:
                if len(self.m_snaps) >= 2:
                    return
                self._run(self.mstack, [{"prim": "DUP"}], "map DUP")
                self.m_snaps.insert(0, dict(self.mmap))

        def _k(self, i, copy=False):
            """instructions that put key i on the stack: pushed, or pushed and replaced by its DUP copy (values that went through a
            copy must still be the same key)"""
            k = interp.push(self.kt, rv.to_micheline(self.kt, self.keys[i]))
            return [k, {"prim": "DUP"}, {"prim": "DIP", "args": [[{"prim": "DROP"}]]}] if copy else [k]

        def _pop_value(self, stack, t):
            item = stack.items.pop(0)
            ty, v = interp.read_item(item)
            if ty != t:
                raise Violation("observation has type %s, expected %s" % (ty, t), self._case(), "observation-type")
            return interp.parse_output(t, v, "observation")

        def _note_update(self, i, removing, present_before):
            self.updates += 1
            self.touched.add(i)
            if removing and present_before:
                self.removed.add(i)
            if not removing and i in self.removed:
                self.reinserted = True

        # -- rules --
        @precondition(lambda self: self.ready)
        @rule(i=st.integers(0, 7), add=st.booleans(), cp=st.booleans())
        def set_update(self, i, add, cp=False):
            i %= len(self.keys)
            self.hist.append({"op": "set UPDATE", "key": i, "add": add, "cp": cp})
            self._note_update(i, not add, i in self.mset)
            self._run(self.sstack, [interp.push(rv.T("bool"), {"prim": "True" if add else "False"}), *self._k(i, cp),
                                    {"prim": "UPDATE"}], "set UPDATE")
            (self.mset.add if add else self.mset.discard)(i)

        @precondition(lambda self: self.ready)
        @rule(i=st.integers(0, 7), val=st.one_of(st.none(), st.integers(0, 50)), gau=st.booleans(), cp=st.booleans())
        def map_update(self, i, val, gau, cp=False):
            i %= len(self.keys)
            self.hist.append({"op": "map " + ("GET_AND_UPDATE" if gau else "UPDATE"), "key": i, "val": val, "cp": cp})
            self._note_update(i, val is None, i in self.mmap)
            rval = None if val is None else val_of(self.vname, val)
            opt = {"prim": "None"} if val is None else {"prim": "Some", "args": [rv.to_micheline(self.vt, rval)]}
            self._run(self.mstack, [interp.push(rv.T("option", self.vt), opt), *self._k(i, cp),
                                    {"prim": "GET_AND_UPDATE" if gau else "UPDATE"}], "map GET_AND_UPDATE" if gau else "map UPDATE")
            if gau:
                old = self._pop_value(self.mstack, rv.T("option", self.vt))
                want = ("Some", self.mmap[i]) if i in self.mmap else None
                if old != want:
                    raise Violation("GET_AND_UPDATE returned %r, model %r" % (old, want), self._case(), "observe:GET_AND_UPDATE")
            if val is None:
                self.mmap.pop(i, None)
            else:
                self.mmap[i] = rval

        @precondition(lambda self: self.ready)
        @rule(i=st.integers(0, 7), cp=st.booleans())
        def observe(self, i, cp=False):
            i %= len(self.keys)
            self.hist.append({"op": "MEM/GET/SIZE", "key": i, "cp": cp})
            self._run(self.sstack, [{"prim": "DUP"}, *self._k(i, cp), {"prim": "MEM"}], "set MEM")
            if self._pop_value(self.sstack, rv.T("bool")) != (i in self.mset):
                raise Violation("set MEM key %d disagrees with the model %s" % (i, sorted(self.mset)), self._case(), "observe:set-MEM")
            self._run(self.mstack, [{"prim": "DUP"}, *self._k(i, cp), {"prim": "MEM"}], "map MEM")
            if self._pop_value(self.mstack, rv.T("bool")) != (i in self.mmap):
                raise Violation("map MEM key %d disagrees with the model" % i, self._case(), "observe:map-MEM")
            self._run(self.mstack, [{"prim": "DUP"}, *self._k(i, cp), {"prim": "GET"}], "map GET")
            got = self._pop_value(self.mstack, rv.T("option", self.vt))
            if got != (("Some", self.mmap[i]) if i in self.mmap else None):
                raise Violation("map GET key %d = %r, model %r" % (i, got, self.mmap.get(i)), self._case(), "observe:GET")
            for stack, n, nm in ((self.sstack, len(self.mset), "set"), (self.mstack, len(self.mmap), "map")):
                self._run(stack, [{"prim": "DUP"}, {"prim": "SIZE"}], nm + " SIZE")
                if self._pop_value(stack, rv.T("nat")) != n:
                    raise Violation("%s SIZE disagrees with the model (%d)" % (nm, n), self._case(), "observe:SIZE")

        @precondition(lambda self: self.ready)
        @rule()
        def map_values(self):
            self.hist.append({"op": "MAP {CDR; PUSH nat 1; ADD}"})
            body, fn = TRANSFORM[self.vname]
            self._run(self.mstack, [{"prim": "MAP", "args": [[{"prim": "CDR"}] + body]}], "MAP")
            self.mmap = {k: fn(v) for k, v in self.mmap.items()}

        @precondition(lambda self: self.ready and len(self.s_snaps) < 2)
        @rule(which=st.sampled_from(["set", "map"]))
        def hold_copy(self, which):
            """DUP: the copy is worked on, the original stays below and must never change afterwards"""
            self.hist.append({"op": "hold", "which": which})
            self._hold(which)

        @precondition(lambda self: self.ready)
        @rule(idx=st.lists(st.integers(0, 7), min_size=1, max_size=6))
        def python_build(self, idx):
            """the same keys given as Python objects in arbitrary order (storage / parameter encoding): the set, map and big_map built
            from them are sorted by the same order and free of duplicates"""
            from checks import c03
            self.hist.append({"op": "python_build", "keys": list(idx)})
            vals = []
            for i in idx:
                k = self.keys[i % len(self.keys)]
                if all(rv.compare(self.kt, k, o) != 0 for o in vals):
                    vals.append(k)
            c03._python_route(self._case(), self.kt, vals, rv.sort_values(self.kt, vals))

        @precondition(lambda self: self.ready)
        @rule()
        def iterate(self):
            self.hist.append({"op": "ITER"})
            lt = rv.T("list", self.kt)
            self._run(self.sstack, [{"prim": "DUP"}, {"prim": "NIL", "args": [self.kt]}, {"prim": "SWAP"},
                                    {"prim": "ITER", "args": [[{"prim": "CONS"}]]}], "set ITER")
            visited = list(reversed(self._pop_value(self.sstack, lt)))
            if visited != [self.keys[i] for i in sorted(self.mset)]:
                raise Violation("set ITER visits %s, reference order of the model is %s" % (
                    [rv.to_micheline(self.kt, k) for k in visited], [rv.to_micheline(self.kt, self.keys[i]) for i in sorted(self.mset)]),
                    self._case(), "iter-order:set")
            self._run(self.mstack, [{"prim": "DUP"}, {"prim": "NIL", "args": [self.kt]}, {"prim": "SWAP"},
                                    {"prim": "ITER", "args": [[{"prim": "CAR"}, {"prim": "CONS"}]]}], "map ITER")
            visited = list(reversed(self._pop_value(self.mstack, lt)))
            if visited != [self.keys[i] for i in sorted(self.mmap)]:
                raise Violation("map ITER visits keys in an order different from the reference order", self._case(), "iter-order:map")

        @precondition(lambda self: self.ready)
        @rule(idx=st.lists(st.integers(0, 7), min_size=0, max_size=6), mode=st.sampled_from(["sorted", "unsorted", "dup"]),
              which=st.sampled_from(["set", "map"]), pos=st.integers(0, 5))
        def literal(self, idx, mode, which, pos):
            ids = sorted({i % len(self.keys) for i in idx})
            self.hist.append({"op": "literal", "which": which, "mode": mode, "keys": ids, "pos": pos})
            ks = [rv.to_micheline(self.kt, self.keys[i]) for i in ids]
            if mode != "sorted":
                if len(ks) < 2 and mode == "unsorted" or not ks:
                    return
                p = pos % max(1, len(ks) - 1)
                if mode == "unsorted":
                    ks[p], ks[p + 1] = ks[p + 1], ks[p]
                else:
                    ks = ks[:p + 1] + ks[p:]
            if which == "set":
                code = [interp.push(self.set_t, ks)]
                stack = self.sstack
            else:
                code = [interp.push(self.map_t, [{"prim": "Elt", "args": [k, rv.to_micheline(self.vt, val_of(self.vname, j))]}
                                                 for j, k in enumerate(ks)])]
                stack = self.mstack
            if mode == "sorted":
                self._run(stack, [{"prim": "DROP"}] + code, which + " literal")
                if which == "set":
                    self.mset = set(ids)
                else:
                    self.mmap = {i: val_of(self.vname, j) for j, i in enumerate(ids)}
            else:
                self._run(stack, code, "%s %s-literal" % (mode, which), expect_fail=True)
                if len(stack.items) != 1 + len(self.s_snaps if which == "set" else self.m_snaps):
                    raise Violation("rejected literal left %d items on the stack" % len(stack.items), self._case(), "literal-stack")

        # -- invariant --
        @invariant()
        def agrees(self):
            if not self.ready:
                return
            ty, sv = interp.read_item(self.sstack.items[0])
            ty2, mv = interp.read_item(self.mstack.items[0])
            if ty != self.set_t or ty2 != self.map_t:
                raise Violation("collection types changed: %s / %s (expected key type %s)" % (ty, ty2, _ts(self.kt)), self._case(),
                                "collection-type")
            s = interp.parse_output(self.set_t, sv, "set")
            m = interp.parse_output(self.map_t, mv, "map")
            for name, ks in (("set", s), ("map", [k for k, _ in m])):
                for a, b in zip(ks, ks[1:]):
                    c = rv.compare(self.kt, a, b)
                    if c is not rv.UNCONSTRAINED and c >= 0:
                        raise Violation("%s not strictly sorted by the reference order: %s then %s (key type %s)" % (
                            name, rv.to_micheline(self.kt, a), rv.to_micheline(self.kt, b), _ts(self.kt)), self._case(),
                            "unsorted:" + name)
            if s != [self.keys[i] for i in sorted(self.mset)]:
                raise Violation("set content %s differs from the model %s" % (sv, sorted(self.mset)), self._case(), "content:set")
            if m != [(self.keys[i], self.mmap[i]) for i in sorted(self.mmap)]:
                raise Violation("map content %s differs from the model %s" % (mv, self.mmap), self._case(), "content:map")
            # copies made earlier by DUP and left untouched since
            for j, snap in enumerate(self.s_snaps):
                _, hv = interp.read_item(self.sstack.items[1 + j])
                if interp.parse_output(self.set_t, hv, "held set") != [self.keys[i] for i in sorted(snap)]:
                    raise Violation("a set copied by DUP %d hold(s) ago changed although only its copy was updated: %s, it was %s" % (
                        j + 1, hv, sorted(snap)), self._case(), "held-copy-changed:set")
            for j, snap in enumerate(self.m_snaps):
                _, hv = interp.read_item(self.mstack.items[1 + j])
                if interp.parse_output(self.map_t, hv, "held map") != [(self.keys[i], snap[i]) for i in sorted(snap)]:
                    raise Violation("a map copied by DUP %d hold(s) ago changed although only its copy was updated: %s" % (j + 1, hv),
                                    self._case(), "held-copy-changed:map")

        def teardown(self):
            if self.ready and not stats.frozen:
                nt = self.updates >= 3 and bool(self.removed) and self.reinserted and len(self.touched) >= 2
                stats.case(self.hist, nt, "key:" + self.kt["prim"], sample=self.hist[:8])
                stats.label("value:" + self.vname)
    return M


def replay(case):
    """Re-executes a recorded history step by step without hypothesis."""
    hist = case["history"]
    st0 = Stats0()
    M = make_machine(st0, 2)
    m = M.__new__(M)
    RuleBasedStateMachine.__init__(m)
    m.hist, m.ready = [], False
    _replay_init(m, hist[0])
    for step in hist[1:]:
        op = step["op"]
        if op == "set UPDATE":
            M.set_update.hypothesis.inner_test if False else None
            _call(m, "set_update", i=step["key"], add=step["add"], cp=step.get("cp", False))
        elif op.startswith("map "):
            _call(m, "map_update", i=step["key"], val=step["val"], gau=op.endswith("GET_AND_UPDATE"), cp=step.get("cp", False))
        elif op == "MEM/GET/SIZE":
            _call(m, "observe", i=step["key"], cp=step.get("cp", False))
        elif op.startswith("MAP"):
            _call(m, "map_values")
        elif op == "ITER":
            _call(m, "iterate")
        elif op == "python_build":
            _call(m, "python_build", idx=step["keys"])
        elif op == "literal":
            _call(m, "literal", idx=step["keys"], mode=step["mode"], which=step["which"], pos=step["pos"])
        elif op == "hold":
            m._hold(step["which"])
        m.agrees()


class Stats0:
    frozen = True

    def case(self, *a, **k):
        pass


def _call(m, name, **kw):
    fn = getattr(type(m), name)
    target = getattr(fn, "__wrapped__", None)
    # hypothesis wraps rules; the original function is kept on the rule object
    from hypothesis.stateful import Rule
    r = getattr(fn, "hypothesis_stateful_rule", None)
    f = r.function if isinstance(r, Rule) else (target or fn)
    return f(m, **kw)


def _replay_init(m, first):
    from pytezos.michelson.stack import MichelsonStack
    from vlib import ref_micheline as rm
    kt = _parse_ts(first["init"])
    m.kt = kt
    m.keys = [rv.from_micheline(kt, k) for k in first["keys"]]
    m.sstack, m.mstack = MichelsonStack(), MichelsonStack()
    m.ctx = interp.new_context()
    m.vname = first.get("vt", "nat")
    m.vt = VTS[m.vname]
    m.set_t, m.map_t = rv.T("set", kt), rv.T("map", kt, m.vt)
    m.hist.append(first)
    m._run(m.sstack, [{"prim": "EMPTY_SET", "args": [kt]}], "EMPTY_SET")
    m._run(m.mstack, [{"prim": "EMPTY_MAP", "args": [kt, m.vt]}], "EMPTY_MAP")
    m.mset, m.mmap = set(), {}
    m.s_snaps, m.m_snaps = [], []
    m.updates, m.removed, m.reinserted, m.touched = 0, set(), False, set()
    m.ready = True


def _parse_ts(s):
    toks = s.replace("(", " ( ").replace(")", " ) ").split()

    def p(i):
        if toks[i] == "(":
            prim = toks[i + 1]
            args, j = [], i + 2
            while toks[j] != ")":
                a, j = p(j)
                args.append(a)
            return rv.T(prim, *args), j + 1
        return rv.T(toks[i]), i + 1
    return p(0)[0]


def run(h):
    depth = 1 if h.quick else 2
    h.run_machine(lambda stats: make_machine(stats, depth), h.n(110, 800), 30 if h.quick else 60,
                  shards=16)
