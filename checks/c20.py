"""C20 — tickets are never forged, duplicated, zeroed or merged incorrectly."""
from hypothesis import strategies as st

from vlib import exec_compare as xc
from vlib import gen_programs as gp
from vlib import interp
from vlib import ref_interp as ri
from vlib import ref_values as rv
from vlib.harness import Inconclusive, Violation

PID = "C20"
RULE = ("programs over TICKET / READ_TICKET / SPLIT_TICKET / JOIN_TICKETS mixed with PAIR UNPAIR SOME IF_NONE CONS SWAP DIG "
        "DUG DROP DUP (and negative cases: DUP / DUP n aimed at ticket-bearing slots); contents nat/string/pair/unit; "
        "amounts {0,1,2,5,10,2^63}; split parts with sums equal / off by one / with a zero part; joins of equal and "
        "different contents. Every instruction is run as its own cell so the stack is inspected after each step. "
        "Oracle: reference ticket semantics (exact stacks incl. None results); after every step no ticket of amount 0 "
        "anywhere (deep walk), total amount per (ticketer, contents) never increases except by a successful TICKET, "
        "DUP of a ticket-bearing value fails; results typed `ticket T`. Non-trivial: a split or join happens after a "
        "TICKET. Distinct = distinct program.")


def oracle(case):
    from pytezos.michelson.stack import MichelsonStack
    env = xc.env_from_json(case["env"])
    code = case["code"]
    ctx = xc.pytezos_context(env)
    stack = MichelsonStack()
    m = ri.Machine(env=xc.ref_env(env), concrete=True, fuel=50000)
    rst = []
    did = set()
    for step_no, ins in enumerate(code):
        name = ins["prim"] if isinstance(ins, dict) else "{}"
        before = _totals_ref(rst)
        try:
            rnew = m.run([ins], rst)
            rerr = None
        except ri.Failed as f:
            rnew, rerr = None, ("failwith", f)
        except ri.RuntimeFail as e:
            rnew, rerr = None, ("fail", e)
        except ri.IllTyped as e:
            if case.get("negative") and step_no == len(code) - 1:
                rnew, rerr = None, ("illtyped", e)
            else:
                return "illtyped:%s" % e, did
        if "MAP-empty-type-change" in m.trace:
            return "excluded-known-finding", did  # C01/C02's recorded finding, excluded here by construction
        stk, out, err = interp.run([ins], stack=stack, context=ctx)
        if rerr is not None:
            if err is None:
                what = "DUP of a ticket-bearing value" if rerr[0] == "illtyped" else "step"
                raise Violation("%s #%d %s must fail (%s) but succeeded; code %s" % (what, step_no, name, rerr[0],
                                                                                  xc._short(code)), case,
                                "missing-failure:" + ("dup-ticket" if rerr[0] == "illtyped" else name))
            return ("dup-refused" if rerr[0] == "illtyped" else rerr[0]), did
        if err is not None:
            raise Violation("step #%d %s fails in pytezos: %r; code %s" % (step_no, name, err.args, xc._short(code)), case,
                            "unexpected-failure:" + name)
        rst = rnew
        did.add(name)
        # same stack
        if len(stack.items) != len(rst):
            raise Violation("after step #%d %s: %d items, reference %d" % (step_no, name, len(stack.items), len(rst)), case,
                            "depth:" + name)
        for i, ((t, v), item) in enumerate(zip(rst, stack.items)):
            diff = xc.slot_equal(t, v, item, case, "slot %d" % i)
            if diff:
                raise Violation("after step #%d %s slot %d: %s; code %s" % (step_no, name, i, diff, xc._short(code)), case,
                                "slot:%s:%s" % (name, "type" if diff.startswith("type") else "value"))
            errs = xc.deep_type_errors(item)
            if errs:
                raise Violation("after step #%d %s slot %d: %s" % (step_no, name, i, errs[:2]), case, "ticket-type:" + name)
        # invariants on the real stack
        real = _totals_real(stack.items, case)
        for key, amt in real.items():
            allowed = before.get(key, 0)
            if "TICKET" in gp.instr_names([ins]):  # amounts may grow only through a (possibly nested) TICKET
                allowed = max(allowed, _totals_ref(rst).get(key, 0))
            if amt > allowed:
                raise Violation("total amount of ticket %s grew from %d to %d by %s" % (key, before.get(key, 0), amt, name),
                                case, "amount-increase:" + name)
    return "ok", did


def _totals_ref(rst):
    tot = {}
    for t, v in rst:
        for tk, c, a in ri.tickets_in(t, v):
            key = (rv.addr_str(tk), c)
            tot[key] = tot.get(key, 0) + a
    return tot


def _walk_real(item, acc):
    prim = getattr(type(item), "prim", None)
    if prim == "ticket":
        acc.append(item)
    elif prim == "pair":
        for x in item.items:
            _walk_real(x, acc)
    elif prim == "option":
        if item.item is not None:
            _walk_real(item.item, acc)
    elif prim == "or":
        for x in item.items:
            if hasattr(type(x), "prim"):
                _walk_real(x, acc)
    elif prim in ("list", "set"):
        for x in item.items:
            _walk_real(x, acc)
    elif prim == "map":
        for _, x in item.items:
            _walk_real(x, acc)
    return acc


def _totals_real(items, case):
    from vlib.interp import strip_annots
    tot = {}
    for item in items:
        for tk in _walk_real(item, []):
            if tk.amount == 0:
                raise Violation("a ticket with amount 0 exists on the stack (ticketer %s)" % tk.ticketer, case, "zero-ticket")
            ct = strip_annots(type(tk.item).as_micheline_expr())
            c = repr(rv.from_micheline(ct, tk.item.to_micheline_value(mode="optimized")))
            key = (tk.ticketer, c)
            tot[key] = tot.get(key, 0) + tk.amount
    return tot


def replay(case):
    oracle(case)


def flatten(code):
    """Top-level instruction list (blocks stay nested inside their instruction)."""
    return list(code)


@st.composite
def cases(draw, size):
    prog = draw(gp.programs(n_inputs=(0, 0), size=size, depth=1, profile="tickets"))
    code = flatten(prog["code"])
    neg = False
    if draw(st.integers(0, 5)) == 0:
        # negative case: DUP / DUP n aimed at a ticket-bearing slot must be refused
        ts = gp.types_after(code, [])
        if ts:
            idx = [i for i, t in enumerate(ts) if rv.contains_type(t, {"ticket"})]
            if idx:
                i = draw(st.sampled_from(idx))
                code = code + [gp.P("DUP") if i == 0 and draw(st.booleans()) else gp.P("DUP", gp.I(i + 1))]
                neg = True
    return {"code": code, "env": xc.env_to_json(draw(gp.env_strategy())), "negative": neg}


def _prop(case, stats):
    kind, did = oracle(case)
    if kind.startswith("illtyped"):
        stats.extra["generator_illtyped"] += 1
        return
    nt = "TICKET" in did and bool(did & {"SPLIT_TICKET", "JOIN_TICKETS"})
    stats.case(case, nt, ("negative-dup:" if case["negative"] else "result:") + kind,
               sample={"code": xc._short(case["code"])[:400], "negative": case["negative"]})
    for n in did & {"TICKET", "READ_TICKET", "SPLIT_TICKET", "JOIN_TICKETS"}:
        stats.label("did:" + n)


def run(h):
    h.run_given(lambda: cases((2, 10) if h.quick else (2, 25)), _prop, h.n(60, 5000), shards=16)
    if h.stats.extra.get("generator_illtyped", 0) > 0.05 * max(1, h.stats.evaluations):
        raise Inconclusive("too many ill-typed programs generated")
