"""C20 — tickets are never forged, duplicated, zeroed or merged incorrectly."""
from hypothesis import strategies as st

from vlib import exec_compare as xc
from vlib import gen_programs as gp
from vlib import interp
from vlib import ref_interp as ri
from vlib import ref_values as rv
from vlib.harness import Inconclusive, Violation

PID = "C20"
RULE = ("programs over TICKET / READ_TICKET / SPLIT_TICKET / JOIN_TICKETS mixed with PAIR UNPAIR SOME IF_NONE CONS SWAP DIG "
        "DUG DROP DUP (and negative cases: DUP / DUP n aimed at ticket-bearing slots); contents nat/string/pair/unit; "
        "amounts {0,1,2,5,10,2^63}; split parts with sums equal / off by one / with a zero part; joins of equal and "
        "different contents. Every instruction is run as its own cell so the stack is inspected after each step. "
        "Oracle: reference ticket semantics (exact stacks incl. None results); after every step no ticket of amount 0 "
        "anywhere (deep walk), total amount per (ticketer, contents) never increases except by a successful TICKET, "
        "DUP of a ticket-bearing value fails; results typed `ticket T`. Non-trivial: a split or join happens after a "
        "TICKET. Free tier: arbitrary, also ill-typed, instruction sequences chosen step by step from ~60 instruction groups "
        "according to the real stack (ticket ops, DUP / DUP n / DIG / DUG / DIP, PAIR / UNPAIR / GET n / UPDATE n replacing "
        "components of pushed pairs, SOME / LEFT / CONS onto lists of another element type, maps and big maps with ticket values, "
        "GET / GET_AND_UPDATE / MAP / ITER over them, lambdas taking tickets, APPLY capturing one): only the conservation "
        "invariants are checked there (no growth without TICKET, no zero ticket). Distinct = distinct program.")


def oracle(case):
    from pytezos.michelson.stack import MichelsonStack
    env = xc.env_from_json(case["env"])
    code = case["code"]
    ctx = xc.pytezos_context(env)
    stack = MichelsonStack()
    m = ri.Machine(env=xc.ref_env(env), concrete=True, fuel=50000)
    rst = []
    did = set()
    for step_no, ins in enumerate(code):
        name = ins["prim"] if isinstance(ins, dict) else "{}"
        before = _totals_ref(rst)
        try:
            rnew = m.run([ins], rst)
            rerr = None
        except ri.Failed as f:
            rnew, rerr = None, ("failwith", f)
        except ri.RuntimeFail as e:
            rnew, rerr = None, ("fail", e)
        except ri.IllTyped as e:
            if case.get("negative") and step_no == len(code) - 1:
                rnew, rerr = None, ("illtyped", e)
            else:
                return "illtyped:%s" % e, did
        if "MAP-empty-type-change" in m.trace:
            return "excluded-known-finding", did  # C01/C02's recorded finding, excluded here by construction
        stk, out, err = interp.run([ins], stack=stack, context=ctx)
        if rerr is not None:
            if err is None:
                what = "DUP of a ticket-bearing value" if rerr[0] == "illtyped" else "step"
                raise Violation("%s #%d %s must fail (%s) but succeeded; code %s" % (what, step_no, name, rerr[0],
                                                                                  xc._short(code)), case,
                                "missing-failure:" + ("dup-ticket" if rerr[0] == "illtyped" else name))
            return ("dup-refused" if rerr[0] == "illtyped" else rerr[0]), did
        if err is not None:
            raise Violation("step #%d %s fails in pytezos: %r; code %s" % (step_no, name, err.args, xc._short(code)), case,
                            "unexpected-failure:" + name)
        rst = rnew
        did.add(name)
        # same stack
        if len(stack.items) != len(rst):
            raise Violation("after step #%d %s: %d items, reference %d" % (step_no, name, len(stack.items), len(rst)), case,
                            "depth:" + name)
        for i, ((t, v), item) in enumerate(zip(rst, stack.items)):
            diff = xc.slot_equal(t, v, item, case, "slot %d" % i)
            if diff:
                raise Violation("after step #%d %s slot %d: %s; code %s" % (step_no, name, i, diff, xc._short(code)), case,
                                "slot:%s:%s" % (name, "type" if diff.startswith("type") else "value"))
            errs = xc.deep_type_errors(item)
            if errs:
                raise Violation("after step #%d %s slot %d: %s" % (step_no, name, i, errs[:2]), case, "ticket-type:" + name)
        # invariants on the real stack
        real = _totals_real(stack.items, case)
        for key, amt in real.items():
            allowed = before.get(key, 0)
            if "TICKET" in gp.instr_names([ins]):  # amounts may grow only through a (possibly nested) TICKET
                allowed = max(allowed, _totals_ref(rst).get(key, 0))
            if amt > allowed:
                raise Violation("total amount of ticket %s grew from %d to %d by %s" % (key, before.get(key, 0), amt, name),
                                case, "amount-increase:" + name)
    return "ok", did


def _totals_ref(rst):
    tot = {}
    for t, v in rst:
        for tk, c, a in ri.tickets_in(t, v):
            key = (rv.addr_str(tk), c)
            tot[key] = tot.get(key, 0) + a
    return tot


def _walk_real(item, acc):
    prim = getattr(type(item), "prim", None)
    if prim == "ticket":
        acc.append(item)
    elif prim == "pair":
        for x in item.items:
            _walk_real(x, acc)
    elif prim == "option":
        if item.item is not None:
            _walk_real(item.item, acc)
    elif prim == "or":
        for x in item.items:
            if hasattr(type(x), "prim"):
                _walk_real(x, acc)
    elif prim in ("list", "set"):
        for x in item.items:
            _walk_real(x, acc)
    elif prim in ("map", "big_map"):
        for _, x in item.items:
            _walk_real(x, acc)
    return acc


def _totals_real(items, case):
    from vlib.interp import strip_annots
    tot = {}
    for item in items:
        for tk in _walk_real(item, []):
            if tk.amount == 0:
                raise Violation("a ticket with amount 0 exists on the stack (ticketer %s)" % tk.ticketer, case, "zero-ticket")
            ct = strip_annots(type(tk.item).as_micheline_expr())
            c = repr(rv.from_micheline(ct, tk.item.to_micheline_value(mode="optimized")))
            key = (tk.ticketer, c)
            tot[key] = tot.get(key, 0) + tk.amount
    return tot


# ---- free tier: arbitrary (also ill-typed) instruction sequences, conservation invariants only ---------------------------------
def P(prim, *args):
    return {"prim": prim, "args": list(args)} if args else {"prim": prim}


def I(n):
    return {"int": str(n)}


TNAT, TSTR = rv.T("nat"), rv.T("string")
UNWRAP = P("IF_NONE", [P("PUSH", TSTR, {"string": "none"}), P("FAILWITH")], [])


def _tk(ct):
    return rv.T("ticket", ct)


def _has_ticket(t):
    return rv.contains_type(t, {"ticket"})




def _forged():
    """Literals / packed bytes that would bring a ticket into existence without TICKET: every one of them is ill-typed in Michelson
    (ticket-bearing types are neither pushable nor packable) and must be refused."""
    tk = rv.T("ticket", TNAT)
    lit = lambda amt: {"prim": "Pair", "args": [{"string": "KT1BEqzn5Wx8uJrZNvuS9DVHmLvG9td3fDLi"}, I(1), I(amt)]}  # noqa: E731
    out = []
    for amt in (100, 0):
        out += [
            [P("PUSH", tk, lit(amt))],
            [P("PUSH", rv.T("pair", tk, TNAT), {"prim": "Pair", "args": [lit(amt), I(0)]})],
            [P("PUSH", rv.T("pair", TNAT, tk), {"prim": "Pair", "args": [I(0), lit(amt)]})],
            [P("PUSH", rv.T("option", tk), {"prim": "Some", "args": [lit(amt)]})],
            [P("PUSH", rv.T("list", tk), [lit(amt)])],
            [P("PUSH", rv.T("or", tk, TNAT), {"prim": "Left", "args": [lit(amt)]})],
            [P("PUSH", rv.T("map", TNAT, tk), [{"prim": "Elt", "args": [I(0), lit(amt)]}])],
            [P("PUSH", rv.T("pair", TNAT, rv.T("option", rv.T("pair", tk, TNAT))),
               {"prim": "Pair", "args": [I(0), {"prim": "Some", "args": [{"prim": "Pair", "args": [lit(amt), I(0)]}]}]})],
        ]
        raw = rv.pack(rv.pair_t(rv.T("address"), TNAT, TNAT), (rv.from_micheline(rv.T("address"), {"string": "KT1BEqzn5Wx8uJrZNvuS9DVHmLvG9td3fDLi"}), (1, amt)))
        out += [[P("PUSH", rv.T("bytes"), {"bytes": raw.hex()}), P("UNPACK", tk), UNWRAP],
                [P("PUSH", rv.T("bytes"), {"bytes": rv.pack(rv.T("pair", rv.pair_t(rv.T("address"), TNAT, TNAT), TNAT),
                                                            ((rv.from_micheline(rv.T("address"), {"string": "KT1BEqzn5Wx8uJrZNvuS9DVHmLvG9td3fDLi"}), (1, amt)), 0)).hex()}),
                 P("UNPACK", rv.T("pair", tk, TNAT)), UNWRAP]]
    return out


_FORGED = []


def forged():
    if not _FORGED:
        _FORGED.extend(_forged())
    return _FORGED


def free_atoms(types):
    """Instruction groups worth trying on a real stack whose item types (annotation-stripped Micheline) are `types`:
    mostly groups that apply to what is on top, so that long productive chains arise."""
    mint = [[P("PUSH", TNAT, I(5)), P("PUSH", TNAT, I(1)), P("TICKET"), UNWRAP], [P("PUSH", TNAT, I(3)), P("PUSH", TNAT, I(2)), P("TICKET"), UNWRAP],
            [P("PUSH", TNAT, I(4)), P("PUSH", TSTR, {"string": "c"}), P("TICKET"), UNWRAP], [P("PUSH", TNAT, I(5)), P("PUSH", TNAT, I(1)), P("TICKET")]]
    if not types:
        return mint * 3 + forged()
    a = list(mint[:2]) + forged()[len(types) % 5::5]   # a few of them per menu: a refused instruction ends the history
    top = types[0]
    p = top["prim"]
    generic = [[P("DUP")], [P("DUP", I(1))], [P("SOME")], [P("LEFT", TNAT)], [P("PUSH", TNAT, I(0)), P("PAIR")], [P("PUSH", TNAT, I(0)), P("SWAP"), P("PAIR")],
               [P("DROP")], [P("PUSH", TNAT, I(7))]]
    a += generic
    if p == "ticket":
        tk = top
        store = [
            [P("EMPTY_BIG_MAP", TNAT, tk), P("SWAP"), P("SOME"), P("PUSH", TNAT, I(0)), P("UPDATE")],
            [P("EMPTY_MAP", TNAT, tk), P("SWAP"), P("SOME"), P("PUSH", TNAT, I(0)), P("UPDATE")],
            [P("NIL", tk), P("SWAP"), P("CONS")],
            [P("NIL", TNAT), P("SWAP"), P("CONS")],  # ill-typed: must be refused
            [P("PUSH", rv.T("pair", rv.T("option", TNAT), TNAT), {"prim": "Pair", "args": [{"prim": "None"}, I(0)]}), P("SWAP"), P("SOME"), P("UPDATE", I(1))],
            [P("PUSH", rv.T("pair", rv.T("list", TNAT), TNAT), {"prim": "Pair", "args": [[], I(0)]}), P("NIL", tk), P("DIG", I(2)), P("CONS"), P("UPDATE", I(1))],
            [P("PUSH", rv.T("pair", TNAT, TNAT), {"prim": "Pair", "args": [I(0), I(0)]}), P("SWAP"), P("UPDATE", I(2))],
            [P("LAMBDA", rv.T("pair", tk, rv.T("unit")), tk, [P("CAR")]), P("SWAP"), P("APPLY")],  # capturing a ticket: must be refused
            [P("LAMBDA", tk, rv.T("pair", tk, tk), [P("DUP"), P("PAIR")]), P("SWAP"), P("EXEC")],
            [P("LAMBDA", tk, tk, []), P("SWAP"), P("EXEC")],
            [P("READ_TICKET")], [P("READ_TICKET"), P("DROP")],
            [P("PUSH", rv.T("pair", TNAT, TNAT), {"prim": "Pair", "args": [I(2), I(3)]}), P("SWAP"), P("SPLIT_TICKET")],
            [P("PUSH", rv.T("pair", TNAT, TNAT), {"prim": "Pair", "args": [I(1), I(2)]}), P("SWAP"), P("SPLIT_TICKET")],
            [P("PUSH", rv.T("pair", TNAT, TNAT), {"prim": "Pair", "args": [I(5), I(0)]}), P("SWAP"), P("SPLIT_TICKET")],
        ]
        a += store * 2
        if len(types) >= 2 and types[1] == tk:
            a += [[P("PAIR"), P("JOIN_TICKETS")]] * 4
        if len(types) >= 2 and types[1]["prim"] in ("map", "big_map") and types[1]["args"][1] == tk:
            a += [[P("SOME"), P("PUSH", TNAT, I(1)), P("UPDATE")], [P("SOME"), P("PUSH", TNAT, I(0)), P("UPDATE")],
                  [P("SOME"), P("PUSH", TNAT, I(0)), P("GET_AND_UPDATE")]] * 2
        if len(types) >= 2 and types[1]["prim"] == "list":
            a += [[P("CONS")]] * 4
    if p in ("map", "big_map"):
        vt = top["args"][1]
        a += [[P("PUSH", TNAT, I(0)), P("GET")], [P("DUP"), P("PUSH", TNAT, I(0)), P("GET")], [P("DUP"), P("PUSH", TNAT, I(0)), P("MEM")],
              [P("NONE", vt), P("PUSH", TNAT, I(0)), P("GET_AND_UPDATE")], [P("DUP", I(1))], [P("DUP")]] * 2
        if p == "big_map" and _has_ticket(vt):
            # take a binding out and keep the map on top (so that the same key can be asked again and again)
            a += [[P("NONE", vt), P("PUSH", TNAT, I(k)), P("GET_AND_UPDATE"), P("SWAP")] for k in (0, 0, 1, 0, 1, 0)]
        if p == "map":
            a += [[P("ITER", [P("DROP")])], [P("MAP", [P("CDR")])], [P("MAP", [P("CDR"), P("DUP"), P("PAIR")])], [P("MAP", [P("DUP"), P("CAR")])]]
    if p == "list":
        a += [[P("MAP", [])], [P("MAP", [P("DUP"), P("PAIR")])], [P("ITER", [P("DROP")])], [P("DUP")], [P("IF_CONS", [P("SWAP"), P("DROP")], [P("PUSH", TSTR, {"string": "e"}), P("FAILWITH")])],
              [P("DUP"), P("SIZE")]] * 2
    if p == "option":
        a += [[UNWRAP], [P("IF_NONE", [P("PUSH", TSTR, {"string": "e"}), P("FAILWITH")], [P("DUP"), P("PAIR")])], [P("DUP")], [P("MAP", [P("DUP"), P("PAIR")])]] * 2
    if p == "or":
        a += [[P("IF_LEFT", [], [P("PUSH", TSTR, {"string": "e"}), P("FAILWITH")])], [P("DUP")]] * 2
    if p == "pair":
        a += [[P("UNPAIR")], [P("CAR")], [P("CDR")], [P("GET", I(1))], [P("GET", I(2))], [P("DUP"), P("CAR")], [P("DUP")], [P("JOIN_TICKETS")],
              [P("UNPAIR"), P("DUP")], [P("DUP", I(1))]] * 2
    if p == "lambda":
        a += [[P("DUP")], [P("DUP"), P("PAIR")], [P("PUSH", rv.T("unit"), {"prim": "Unit"}), P("EXEC")], [P("DUP"), P("PUSH", rv.T("unit"), {"prim": "Unit"}), P("EXEC")]] * 2
    if _has_ticket(top) and p in ("pair", "option", "list", "or", "map"):
        # capturing a ticket-bearing value in a closure (which could then be copied and run twice): must be refused
        a += [[P("LAMBDA", rv.T("pair", top, rv.T("unit")), top, [P("CAR")]), P("SWAP"), P("APPLY")]] * 3
    if len(types) >= 2:
        a += [[P("SWAP")], [P("PAIR")], [P("DUP", I(2))], [P("DIG", I(1))], [P("DIP", [P("DUP")])], [P("UPDATE", I(1))], [P("UPDATE", I(2))], [P("SWAP"), P("UPDATE", I(1))]]
        if _has_ticket(types[1]):
            a += [[P("DUP", I(2))], [P("DIP", [P("DUP")])], [P("DIP", [P("DUP"), P("DROP")])]] * 2
    if len(types) >= 3:
        a += [[P("PAIR", I(3))], [P("DUP", I(3))], [P("DIG", I(2))], [P("DIP", I(2), [P("DUP")])]]
    return a


def run_free(atoms_fn, case_log, case):
    """Runs atom groups one by one on a live stack; atoms_fn(types) -> next group or None. Invariant: per (ticketer, contents)
    the total amount never grows except through TICKET, and no zero-amount ticket exists."""
    from pytezos.michelson.stack import MichelsonStack
    env = xc.env_from_json(case["env"])
    ctx = xc.pytezos_context(env)
    stack = MichelsonStack()
    totals = {}
    did = set()
    chain_left = {}
    if case.get("onchain"):
        # the execution starts with a big_map of tickets that lives on chain (as a contract storage does): its tickets may come out
        # of it -- once each
        from hashlib import blake2b
        from pytezos.michelson.types.base import MichelsonType
        from vlib import fake_node
        from vlib import ref_crypto as rc
        node = fake_node.FakeNode()
        kt = "KT1BEqzn5Wx8uJrZNvuS9DVHmLvG9td3fDLi"
        node.big_maps[5] = {}
        for k, amt in case["onchain"].items():
            h = rc.tz_encode(blake2b(rv.pack(TNAT, int(k), legacy=True), digest_size=32).digest(), "expr")
            node.big_maps[5][h] = {"prim": "Pair", "args": [{"string": kt}, I(1), I(amt)]}
            chain_left[(kt, repr(1))] = chain_left.get((kt, repr(1)), 0) + amt
        ctx.shell = fake_node.shell(node)
        bm = MichelsonType.match(rv.T("big_map", TNAT, _tk(TNAT))).from_micheline_value({"int": "5"})
        bm.attach_context(ctx)
        stack.push(bm)
    while True:
        types = [interp.strip_annots(type(i).as_micheline_expr()) for i in stack.items]
        group = atoms_fn(types)
        if group is None:
            break
        case_log.append(group)
        mints = "TICKET" in gp.instr_names(group)
        stk, out, err = interp.run(list(group), stack=stack, context=ctx)
        if err is not None:
            break  # the execution is over (a failed instruction leaves no result)
        did |= gp.instr_names(group)
        real = _totals_real(stack.items, case)
        for key, amt in real.items():
            grown = amt - totals.get(key, 0)
            if 0 < grown <= chain_left.get(key, 0) and not mints:
                chain_left[key] -= grown   # tickets that came out of the on-chain big_map
                continue
            if amt > totals.get(key, 0) and not mints:
                raise Violation("total amount of ticket %s grew from %d to %d by %s (no TICKET executed); history %s" % (
                    key, totals.get(key, 0), amt, xc._short(group), xc._short(case_log)), dict(case, atoms=list(case_log)),
                    "free:amount-increase:" + "+".join(sorted(gp.instr_names(group))))
            if mints and amt > totals.get(key, 0) + 5:
                raise Violation("TICKET of at most 5 raised the total of %s from %d to %d" % (key, totals.get(key, 0), amt),
                                dict(case, atoms=list(case_log)), "free:mint-too-much")
        totals = real
    return did


def replay(case):
    if "cells" in case:
        return oracle_repl(case)
    if "atoms" in case:
        it = iter(case["atoms"])
        run_free(lambda types: next(it, None), [], case)
        return
    oracle(case)


def flatten(code):
    """Top-level instruction list (blocks stay nested inside their instruction)."""
    return list(code)


@st.composite
def cases(draw, size):
    prog = draw(gp.programs(n_inputs=(0, 0), size=size, depth=1, profile="tickets"))
    code = flatten(prog["code"])
    neg = False
    if draw(st.integers(0, 5)) == 0:
        # negative case: DUP / DUP n aimed at a ticket-bearing slot must be refused
        ts = gp.types_after(code, [])
        if ts:
            idx = [i for i, t in enumerate(ts) if rv.contains_type(t, {"ticket"})]
            if idx:
                i = draw(st.sampled_from(idx))
                code = code + [gp.P("DUP") if i == 0 and draw(st.booleans()) else gp.P("DUP", gp.I(i + 1))]
                neg = True
    return {"code": code, "env": xc.env_to_json(draw(gp.env_strategy())), "negative": neg}


def _prop(case, stats):
    kind, did = oracle(case)
    if kind.startswith("illtyped"):
        stats.extra["generator_illtyped"] += 1
        return
    nt = "TICKET" in did and bool(did & {"SPLIT_TICKET", "JOIN_TICKETS"})
    stats.case(case, nt, ("negative-dup:" if case["negative"] else "result:") + kind,
               sample={"code": xc._short(case["code"])[:400], "negative": case["negative"]})
    for n in did & {"TICKET", "READ_TICKET", "SPLIT_TICKET", "JOIN_TICKETS"}:
        stats.label("did:" + n)


def _prop_free(data, stats):
    env = xc.env_to_json(data.draw(gp.env_strategy()))
    n = data.draw(st.integers(3, 14))
    log = []
    state = {"k": 0}

    def pick(types):
        if state["k"] >= n:
            return None
        state["k"] += 1
        return data.draw(st.sampled_from(free_atoms(types)))
    case = {"env": env, "free": True}
    if data.draw(st.integers(0, 3)) == 0:
        case["onchain"] = {str(k): data.draw(st.sampled_from([5, 5, 3])) for k in data.draw(st.sets(st.integers(0, 1), min_size=1))}
    did = run_free(pick, log, case)
    nt = "TICKET" in did and len(did) >= 4
    stats.case(log, nt or bool(case.get("onchain")), "free:%s%s" % ("minted" if "TICKET" in did else "no-ticket", ":on-chain-tickets" if case.get("onchain") else ""),
               sample={"atoms": xc._short(log)[:500], "onchain": case.get("onchain")})
    for name in did & {"DUP", "UPDATE", "CONS", "APPLY", "EXEC", "GET", "GET_AND_UPDATE", "MAP", "SPLIT_TICKET", "JOIN_TICKETS"}:
        stats.label("free-did:" + name)


def onchain_histories(max_len):
    """Every sequence (up to max_len) of: take the binding of key 0 / key 1 out of an on-chain big_map of tickets (keeping the map on
    top), put the option lying below the map back under key 0 / key 1 -- for two on-chain contents."""
    import itertools
    from checks.c01 import _ENV0
    vt = _tk(TNAT)
    take = lambda k: [P("NONE", vt), P("PUSH", TNAT, I(k)), P("GET_AND_UPDATE"), P("SWAP")]  # noqa: E731
    put = lambda k: [P("SWAP"), P("PUSH", TNAT, I(k)), P("UPDATE")]  # noqa: E731
    alphabet = [take(0), take(1), put(0), put(1)]
    out = []
    for onchain in ({"0": 5}, {"0": 5, "1": 3}):
        for n in range(1, max_len + 1):
            for seq in itertools.product(range(len(alphabet)), repeat=n):
                if seq[0] >= 2:
                    continue  # nothing to put back yet
                out.append({"env": xc.env_to_json(_ENV0), "free": True, "onchain": onchain, "atoms": [alphabet[i] for i in seq]})
    return out


def warm_histories():
    """A plain value of some nested shape is duplicated first, then a ticket is wrapped into the same shape and DUP is tried on it:
    what was learnt about one type must not be reused for another type that merely looks alike at the top."""
    from checks.c01 import _ENV0
    tk = _tk(TNAT)
    mint = [P("PUSH", TNAT, I(5)), P("PUSH", TNAT, I(1)), P("TICKET"), UNWRAP]
    T = rv.T
    shapes = [
        (P("PUSH", T("pair", TNAT, T("pair", TNAT, TNAT)), {"prim": "Pair", "args": [I(0), {"prim": "Pair", "args": [I(0), I(0)]}]}),
         [[P("PUSH", TNAT, I(0)), P("PAIR")], [P("PUSH", TNAT, I(0)), P("PAIR")]]),
        (P("PUSH", T("pair", T("pair", TNAT, TNAT), TNAT), {"prim": "Pair", "args": [{"prim": "Pair", "args": [I(0), I(0)]}, I(0)]}),
         [[P("PUSH", TNAT, I(0)), P("SWAP"), P("PAIR")], [P("PUSH", TNAT, I(0)), P("SWAP"), P("PAIR")]]),
        (P("PUSH", T("option", T("option", TNAT)), {"prim": "Some", "args": [{"prim": "Some", "args": [I(0)]}]}), [[P("SOME")], [P("SOME")]]),
        (P("PUSH", T("or", T("or", TNAT, TNAT), TNAT), {"prim": "Left", "args": [{"prim": "Left", "args": [I(0)]}]}),
         [[P("LEFT", TNAT)], [P("LEFT", TNAT)]]),
        (P("PUSH", T("list", T("list", TNAT)), [[I(1)]]), [[P("NIL", tk), P("SWAP"), P("CONS")], [P("NIL", T("list", tk)), P("SWAP"), P("CONS")]]),
        (P("PUSH", T("pair", TNAT, T("option", TNAT)), {"prim": "Pair", "args": [I(0), {"prim": "Some", "args": [I(0)]}]}),
         [[P("SOME")], [P("PUSH", TNAT, I(0)), P("PAIR")]]),
    ]
    out = []
    for plain, wraps in shapes:
        for warm in ([plain, P("DUP"), P("DROP"), P("DROP")], [plain, P("DUP"), P("PAIR"), P("DROP")], None):
            atoms = ([warm] if warm else []) + [mint] + wraps + [[P("DUP")]]
            out.append({"env": xc.env_to_json(_ENV0), "free": True, "atoms": atoms})
            out.append({"env": xc.env_to_json(_ENV0), "free": True, "atoms": ([warm] if warm else []) + [mint] + wraps + [[P("DUP", I(1))]]})
    return out


def _prop_onchain(case, stats):
    it = iter(case["atoms"])
    log = []
    run_free(lambda types: next(it, None), log, case)
    stats.case(case["atoms"], len(log) >= 3, "free:on-chain-history" if case.get("onchain") else "free:look-alike-types",
               sample={"onchain": case.get("onchain"), "atoms": xc._short(case["atoms"])[:300]})


_UNW = "IF_NONE { UNIT ; FAILWITH } {}"
REPL_CELLS = ["PUSH nat 5 ; PUSH nat 1 ; TICKET ; " + _UNW, "PUSH nat 3 ; PUSH nat 1 ; TICKET ; " + _UNW, "PAIR ; JOIN_TICKETS ; " + _UNW,
              "PUSH (pair nat nat) (Pair 2 1) ; SWAP ; SPLIT_TICKET ; " + _UNW + " ; UNPAIR", "READ_TICKET ; DROP", "SWAP", "DROP",
              "PAIR", "UNPAIR", "SOME", _UNW, "PUSH nat 4 ; PUSH string \"c\" ; TICKET ; " + _UNW]
REPL_FAIL = [" ; UNIT ; FAILWITH", " ; PUSH int 1 ; PUSH string \"a\" ; ADD", " ; DROP 50", " ; DIP { UNIT ; FAILWITH }"]


def oracle_repl(case):
    """Cells run one after another in one interpreter session (failing cells are rolled back): per (ticketer, contents) the total
    amount on the stack may grow only in a cell that executes TICKET, and a cell that fails changes nothing."""
    from pytezos.michelson.repl import Interpreter
    it = Interpreter()
    totals = {}
    for no, text in enumerate(case["cells"]):
        try:
            res = it.execute(text)
            failed = res.error is not None
        except Exception:
            failed = True
        real = _totals_real(it.stack.items, case)
        if failed and real != totals:
            raise Violation("cell #%d %r failed, yet the ticket totals on the stack changed from %s to %s (cells %s)" % (
                no, text, totals, real, case["cells"][:no + 1]), case, "repl:failed-cell-changed-totals")
        for key, amt in real.items():
            if amt > totals.get(key, 0) and "TICKET ;" not in text.replace("JOIN_TICKETS", "").replace("SPLIT_TICKET", "").replace("READ_TICKET", ""):
                raise Violation("cell #%d %r raised the total of ticket %s from %d to %d without TICKET (cells %s)" % (
                    no, text, key, totals.get(key, 0), amt, case["cells"][:no + 1]), case, "repl:amount-increase")
        totals = real


@st.composite
def repl_cases(draw):
    cells = [REPL_CELLS[0], REPL_CELLS[1]] if draw(st.booleans()) else []
    for _ in range(draw(st.integers(2, 9))):
        c = draw(st.sampled_from(REPL_CELLS + REPL_CELLS[:4]))
        if draw(st.integers(0, 3)) == 0:
            c = c + draw(st.sampled_from(REPL_FAIL))
        cells.append(c)
    return {"cells": cells}


def _prop_repl(case, stats):
    oracle_repl(case)
    stats.case(case["cells"], any("FAILWITH ; " not in c and any(c.endswith(f) for f in REPL_FAIL) for c in case["cells"]), "repl-session",
               sample={"cells": case["cells"][:8]})


def run(h):
    h.run_given(repl_cases, _prop_repl, h.n(40, 1000), shards=16, name="repl-sessions")
    h.run_enum(onchain_histories(4 if h.quick else 6), _prop_onchain, shards=16)
    h.run_enum(warm_histories(), _prop_onchain, shards=4)
    h.run_given(lambda: cases((2, 10) if h.quick else (2, 25)), _prop, h.n(60, 1500), shards=16)
    h.run_given(lambda: st.data(), _prop_free, h.n(150, 3000), shards=16, name="free")
    if h.stats.extra.get("generator_illtyped", 0) > 0.05 * max(1, h.stats.evaluations):
        raise Inconclusive("too many ill-typed programs generated")
