"""C12 — Python-object conversion of contract data round-trips."""
from hypothesis import strategies as st

from vlib import gen_types as gt
from vlib import interp
from vlib import ref_values as rv
from vlib.harness import Violation

PID = "C12"
RULE = ("storage/parameter types (depth <=2 quick, <=3 thorough) with named and unnamed pairs and unions, duplicate and "
        "missing field names, names that look like inferred ones (int_0), type-name annotations, enums, options "
        "(incl. nested), lists, sets, maps with composite keys, big_map literals, lambdas; values boundary-biased. "
        "Oracle: T.from_python_object(v.to_python_object()) renders to the same optimized Micheline as v; "
        "ContractData.decode(encode(obj)) == obj and encode(decode(m)) == m; ContractEntrypoint.decode/encode "
        "likewise; get_type_layout names pairwise distinct and identical on two independently built copies of the "
        "type. Non-trivial: type has >=2 named fields or a union, or a collection with a composite key. "
        "Distinct = distinct (annotated type, value).")

LEAVES = ["int", "nat", "string", "bytes", "mutez", "bool", "unit", "key_hash", "timestamp", "address", "chain_id",
          "signature", "key", "bls12_381_fr"]


def _match(t):
    from pytezos.michelson.types.base import MichelsonType
    import pytezos.michelson.types  # noqa: F401
    return MichelsonType.match(t)


def _ts(t):
    s = t["prim"] + "".join(" " + a for a in t.get("annots", []))
    if rv.targs(t):
        s += " " + " ".join(_ts(a) for a in rv.targs(t))
    return "(%s)" % s if (rv.targs(t) or t.get("annots")) else s


def _subtypes(t):
    yield t
    for a in rv.targs(t):
        yield from _subtypes(a)


def _nested_option_some_none(t, v):
    """Value contains Some None at a type option (option _): the documented Python form (None) is ambiguous."""
    p, a = t["prim"], rv.targs(t)
    if p == "option":
        if v is None:
            return False
        if a[0]["prim"] == "option" and v[1] is None:
            return True
        return _nested_option_some_none(a[0], v[1])
    if p == "pair":
        return _nested_option_some_none(a[0], v[0]) or _nested_option_some_none(a[1], v[1])
    if p == "or":
        return _nested_option_some_none(a[0 if v[0] == "Left" else 1], v[1])
    if p in ("list", "set"):
        return any(_nested_option_some_none(a[0], x) for x in v)
    if p == "big_map" and isinstance(v, tuple):
        return False
    if p in ("map", "big_map"):
        return any(_nested_option_some_none(a[0], k) or _nested_option_some_none(a[1], x) for k, x in v)
    return False


def check_layout(at, case):
    """Field names are unique and stable."""
    for sub in _subtypes(at):
        if sub["prim"] not in ("pair", "or"):
            continue
        c1, c2 = _match(sub), _match(sub)
        for kw in ({}, {"infer_names": True}):
            l1, l2 = c1.get_type_layout(**kw), c2.get_type_layout(**kw)
            if l1 != l2:
                raise Violation("get_type_layout differs between two copies of %s: %r vs %r" % (_ts(sub), l1, l2), case,
                                "layout-unstable")
            p2k = l1[0]
            if p2k is not None and len(set(p2k.values())) != len(p2k):
                raise Violation("field names of %s are not unique: %r" % (_ts(sub), p2k), case, "layout-duplicate-names")


def oracle(case):
    at = case["t"]
    t = gt.strip(at)
    v = rv.from_micheline(t, case["v"])
    readable = rv.to_micheline(t, v)
    cls = _match(at)
    check_layout(at, case)
    try:
        obj = cls.from_micheline_value(readable)
        base = obj.to_micheline_value(mode="optimized", lazy_diff=None)
    except Exception as e:
        raise Violation("cannot build %s : %s: %r" % (readable, _ts(at), e), case, "build-raise")
    ambiguous = _nested_option_some_none(t, v)
    try:
        py = obj.to_python_object(lazy_diff=None)
    except Exception as e:
        raise Violation("to_python_object raised %r for %s : %s" % (e, readable, _ts(at)), case,
                        "to_python-raise:" + _blame(at))
    try:
        back = cls.from_python_object(py)
        again = back.to_micheline_value(mode="optimized", lazy_diff=None)
    except Exception as e:
        raise Violation("from_python_object(%r) raised %r for type %s (value %s)" % (py, e, _ts(at), readable), case,
                        "from_python-raise:" + _blame(at))
    if again != base:
        raise Violation("python round trip changed the value: %s -> %r -> %s (type %s)" % (base, py, again, _ts(at)), case,
                        "python-roundtrip:" + ("nested-option-some-none" if ambiguous else _blame(at)))
    # an equal dict built in another insertion order is the same Python object as far as the documentation goes
    if not ambiguous:
        try:
            alt = cls.from_python_object(_reverse_dicts(py)).to_micheline_value(mode="optimized", lazy_diff=None)
        except Exception as e:
            raise Violation("from_python_object raised %r on the same object with dict keys in reverse order: %r (type %s)"
                            % (e, py, _ts(at)), case, "dict-order-raise:" + _blame(at))
        if alt != base:
            raise Violation("dict insertion order changes the value: %r -> %s, expected %s (type %s)" % (py, alt, base,
                                                                                                      _ts(at)), case,
                            "dict-order:" + _blame(at))
    # contract-level helpers
    from pytezos.context.impl import ExecutionContext
    from pytezos.contract.data import ContractData
    cd = ContractData(ExecutionContext(), obj)
    try:
        enc = cd.encode(py, mode="optimized")
        dec = cd.decode(base)
        enc2 = cd.encode(dec, mode="optimized")
        dec2 = cd.decode(enc)
    except Exception as e:
        raise Violation("ContractData encode/decode raised %r (type %s, object %r)" % (e, _ts(at), py), case,
                        "contractdata-raise:" + _blame(at))
    if enc2 != base or enc != base:
        raise Violation("ContractData.encode(decode(m)) != m: m=%s got %s (type %s)" % (base, enc2, _ts(at)), case,
                        "contractdata-encode-decode:" + _blame(at))
    if not _py_eq(dec2, py) or not _py_eq(dec, py):
        raise Violation("ContractData.decode(encode(obj)) != obj: %r vs %r (type %s)" % (dec2, py, _ts(at)), case,
                        "contractdata-decode-encode:" + _blame(at))
    if case.get("as_parameter"):
        _check_entrypoint(at, obj, base, case)
    return v


def _check_entrypoint(at, obj, base, case):
    from pytezos.context.impl import ExecutionContext
    from pytezos.contract.entrypoint import ContractEntrypoint
    from pytezos.michelson.sections.parameter import ParameterSection
    from vlib import ref_entrypoints as re_
    entries, roots, dup = re_.table(at)
    if dup or (roots & set(entries)):
        return  # duplicate entrypoint names / no addressable root: not a valid parameter type (C13's subject)
    pexpr = {"prim": "parameter", "args": [at]}
    try:
        pty = ParameterSection.match(pexpr)
    except Exception as e:
        raise Violation("valid parameter type %s rejected: %r" % (_ts(at), e), case, "parameter-rejected")
    ctx = ExecutionContext(script={"code": [pexpr, {"prim": "storage", "args": [{"prim": "unit"}]},
                                            {"prim": "code", "args": [[]]}]})
    root = pty.root_name
    ep = ContractEntrypoint(ctx, root)
    try:
        # decode gives the Python form of the full parameter; encoding it under the root entrypoint must rebuild it
        # (decode's keys are Python field names, which for unnamed branches are inferred and not entrypoints)
        py = ep.decode(base)
        arg = py if pty.args[0].prim == "or" else py[root]
        enc = ep.encode(arg, mode="optimized")
        full = pty.from_parameters(enc).to_micheline_value(mode="optimized")
    except Exception as e:
        raise Violation("ContractEntrypoint decode/encode raised %r for parameter %s value %s" % (e, _ts(at), base), case,
                        "entrypoint-raise:" + _blame(at))
    if full != base:
        raise Violation("ContractEntrypoint.encode(decode(m)) rebuilds %s, m = %s (parameter %s, python %r)"
                        % (full, base, _ts(at), py), case, "entrypoint-roundtrip:" + _blame(at))
    # the same proxy object, used again: decoding transaction parameters under an explicit entrypoint (the documented use of
    # the `entrypoint` argument) must not change what later calls on the proxy do
    try:
        py_tx = ep.decode(enc["value"], entrypoint=enc["entrypoint"])
        enc_again = ep.encode(arg, mode="optimized")
        py_again = ep.decode(base)
    except Exception as e:
        raise Violation("second use of one ContractEntrypoint proxy raised %r after decode(value, entrypoint=%r) (parameter %s)" % (
            e, enc["entrypoint"], _ts(at)), case, "entrypoint-proxy-state:raise")
    if enc_again != enc or not _py_eq(py_again, py):
        raise Violation("ContractEntrypoint proxy answers differently after decode(value, entrypoint=%r): encode %s then %s, decode "
                        "%r then %r (parameter %s)" % (enc["entrypoint"], enc, enc_again, py, py_again, _ts(at)), case,
                        "entrypoint-proxy-state")


def _reverse_dicts(o):
    if isinstance(o, dict):
        return {k: _reverse_dicts(v) for k, v in reversed(list(o.items()))}
    if isinstance(o, list):
        return [_reverse_dicts(x) for x in o]
    if isinstance(o, tuple):
        return tuple(_reverse_dicts(x) for x in o)
    return o


def _py_eq(a, b):
    if type(a).__name__ == "unit" and type(b).__name__ == "unit":
        return True
    if isinstance(a, dict) and isinstance(b, dict):
        return a.keys() == b.keys() and all(_py_eq(a[k], b[k]) for k in a)
    if isinstance(a, (list, tuple)) and isinstance(b, (list, tuple)):
        return len(a) == len(b) and all(_py_eq(x, y) for x, y in zip(a, b))
    return a == b and type(a) == type(b)


def _blame(at):
    names = [a for s in _subtypes(at) for a in s.get("annots", [])]
    if any(n[1:] in ("int_0", "nat_1", "unit_0", "pair_0") for n in names):
        return "inferred-looking-name"
    if len(set(names)) != len(names):
        return "duplicate-names"
    for p in ("or", "big_map", "map", "set", "lambda", "option"):
        if any(s["prim"] == p for s in _subtypes(at)):
            return p
    return "pair" if at["prim"] == "pair" else at["prim"]


def classify(v):
    if v.sig == "python-roundtrip:nested-option-some-none":
        return "C12-nested-option"
    return None


def replay(case):
    oracle(case)


@st.composite
def cases(draw, depth):
    t = draw(gt.types(depth, leaves=LEAVES, collections=True, lambdas=True, big_maps=True))
    at = draw(gt.decorate(t, field_ok=True, bare=0))
    v = draw(gt.values(t, ptrs=True))
    return {"t": at, "v": rv.to_micheline(t, v), "as_parameter": draw(st.booleans())}


def _prop(case, stats):
    oracle(case)
    at = case["t"]
    named = sum(1 for s in _subtypes(at) for a in s.get("annots", []) if a[0] == "%")
    union = any(s["prim"] == "or" for s in _subtypes(at))
    compk = any(s["prim"] in ("map", "set", "big_map") and rv.targs(s)[0]["prim"] in ("pair", "or", "option")
                for s in _subtypes(at))
    stats.case(case, named >= 2 or union or compk, _blame(at), sample={"type": _ts(at), "value": case["v"]})


def run(h):
    depth = 2 if h.quick else 3
    h.run_given(lambda: cases(depth), _prop, h.n(300, 10000), shards=8 if h.quick else 16, classify=classify)
