"""C17 — type annotations do not change execution or serialization (metamorphic)."""
from hypothesis import strategies as st

from vlib import exec_compare as xc
from vlib import gen_programs as gp
from vlib import gen_types as gt
from vlib import interp
from vlib import ref_interp as ri
from vlib import ref_values as rv
from vlib.harness import Inconclusive, Violation

PID = "C17"
RULE = ("(A) well-typed programs of C01's generator (profile weighted to PUSH of right combs of length 2..6 followed by "
        "GET n / UPDATE n / UNPAIR n / CAR / CDR / PACK / UNPACK, plus the whole core instruction set) x inputs x "
        "environments, each paired with two independent re-annotations of EVERY type expression occurring in the "
        "program and its inputs (%field on pair/or components, :type anywhere, drawn per occurrence, so occurrences "
        "of one type may be annotated differently); (B) packable typed values paired with two re-annotations of their "
        "type. Oracle (metamorphic, no reference needed): the un-annotated run and both annotated runs end with the same "
        "stack (annotation-stripped, right-nested types; values equal as Tezos values; pack() bytes of every packable "
        "slot identical) or all fail at the same instruction with the same FAILWITH payload; for (B) pack() bytes, "
        "optimized/readable renderings and unpack() agree across annotations. Non-trivial: the re-annotation puts an "
        "annotation on a pair that is the right component of another pair (an inner comb node) and the program applies "
        "a comb instruction or PACK/UNPACK; for (B): the annotated type has an annotated inner comb node. "
        "Distinct = distinct (program, annotation) / (type, value, annotation).")

COMB_INSTR = {"GET", "UPDATE", "UNPAIR", "PAIR", "CAR", "CDR", "PACK", "UNPACK", "COMPARE"}


# ---- re-annotation of every type expression in a program --------------------------------------------------------
def _is_type(e):
    return isinstance(e, dict) and "prim" in e and e["prim"].islower()


@st.composite
def annotate_code(draw, code, skip_lambda_bodies):
    def walk(e, in_lambda):
        if isinstance(e, list):
            return [walk(x, in_lambda) for x in e]
        if not isinstance(e, dict) or "prim" not in e:
            return e
        if _is_type(e):
            if in_lambda and skip_lambda_bodies:
                return e
            return draw(gt.decorate(e, False, 0.5, 0.2))
        out = dict(e)
        if e.get("args"):
            inner = in_lambda or e["prim"] in ("LAMBDA", "LAMBDA_REC", "Lambda_rec")
            if e["prim"] == "PUSH" and rv.contains_type(e["args"][0], {"lambda"}):
                inner = True
            args = []
            for i, a in enumerate(e["args"]):
                # the declared argument / result types of LAMBDA are ordinary types; only the body is "inside"
                if e["prim"] in ("LAMBDA", "LAMBDA_REC") and i < 2:
                    args.append(walk(a, in_lambda))
                elif e["prim"] == "PUSH" and i == 0:
                    args.append(walk(a, in_lambda))
                else:
                    args.append(walk(a, inner))
            out["args"] = args
        return out
    return walk(code, False)


def _inner_comb_annotated(t, right_of_pair=False):
    """True when a pair that is the right component of another pair carries an annotation."""
    if not isinstance(t, dict):
        return False
    if t.get("prim") == "pair" and right_of_pair and t.get("annots"):
        return True
    args = t.get("args", [])
    for i, a in enumerate(args):
        if _inner_comb_annotated(a, t.get("prim") == "pair" and i == len(args) - 1):
            return True
    return False


def _types_in(e):
    if isinstance(e, list):
        for x in e:
            yield from _types_in(x)
    elif isinstance(e, dict) and "prim" in e:
        if _is_type(e):
            yield e
        else:
            for a in e.get("args", []):
                yield from _types_in(a)


def norm_type(t):
    """annotation-stripped, n-ary pairs right-nested."""
    args = [norm_type(a) for a in t.get("args", [])]
    if t["prim"] == "pair" and len(args) > 2:
        r = args[-1]
        for a in reversed(args[1:-1]):
            r = {"prim": "pair", "args": [a, r]}
        args = [args[0], r]
    return {"prim": t["prim"], "args": args} if args else {"prim": t["prim"]}


# ---- (A) programs ------------------------------------------------------------------------------------------------
def _run(inputs, code, env):
    ctx = xc.pytezos_context(env)
    stk, out, err = interp.run(xc.prelude(inputs) + code, context=ctx)
    return stk, err


def _describe(stk, err, lambdas_literal=False):
    """Neutral description of a run: ('ok', [(type, value, packed)...]) or ('fail', instr, payload).
    lambdas_literal: lambda bodies were not re-annotated, so lambda values must be identical code (and pack identically)."""
    if err is not None:
        is_fw = len(err.args) >= 2 and err.args[-2] == "FAILWITH"
        return ("fail", xc._instr_of(err), err.args[-1] if is_fw else None)
    slots = []
    for item in stk.items:
        t = norm_type(type(item).as_micheline_expr())
        try:
            m = item.to_micheline_value(mode="optimized")
        except Exception as e:
            slots.append((t, "render-raise:%s" % type(e).__name__, None))
            continue
        try:
            v = rv.from_micheline(t, m) if not rv.contains_type(t, {"ticket", "lambda", "operation", "contract"}) else m
        except rv.Malformed:
            v = ("malformed", m)
        if rv.contains_type(t, {"lambda"}) and not lambdas_literal:
            v = "lambda-not-compared"
        packed = None
        if rv.is_packable(t) and (lambdas_literal or not rv.contains_type(t, {"lambda"})):
            try:
                packed = item.pack().hex()
            except Exception as e:
                packed = "pack-raise:%s" % type(e).__name__
        slots.append((t, v, packed))
    return ("ok", slots)


def _diff(base, other):
    if base[0] != other[0]:
        return "outcome", "un-annotated run: %s, annotated run: %s" % (_brief(base), _brief(other))
    if base[0] == "fail":
        if base[1] != other[1]:
            return "fail-instr", "fails at %s without annotations, at %s with them" % (base[1], other[1])
        if base[2] != other[2]:
            return "failwith-payload", "FAILWITH payload %r without annotations, %r with them" % (base[2], other[2])
        return None
    if len(base[1]) != len(other[1]):
        return "depth", "stack depth %d vs %d" % (len(base[1]), len(other[1]))
    for i, (a, b) in enumerate(zip(base[1], other[1])):
        if a[0] != b[0]:
            return "type", "slot %d has type %s without annotations, %s with them" % (i, a[0], b[0])
        if a[1] != b[1]:
            return "value", "slot %d holds %r without annotations, %r with them" % (i, a[1], b[1])
        if a[2] != b[2]:
            return "packed", "slot %d packs to %s without annotations, %s with them" % (i, a[2], b[2])
    return None


def _brief(d):
    if d[0] == "fail":
        return "fails at %s%s" % (d[1], "" if d[2] is None else " with %r" % (d[2],))
    return "stack of %d" % len(d[1])


def oracle_program(case):
    env = xc.env_from_json(case["env"])
    lit = not case.get("annotate_bodies", True)
    base = _describe(*_run(case["inputs"], case["code"], env), lambdas_literal=lit)
    for k, var in enumerate(case["variants"]):
        got = _describe(*_run(var["inputs"], var["code"], env), lambdas_literal=lit)
        d = _diff(base, got)
        if d:
            names = sorted(gp.instr_names(case["code"]) & COMB_INSTR)
            raise Violation("annotations change the run (%s): %s; annotated code %s ; inputs %s" % (
                d[0], d[1], xc._short(var["code"])[:500], [i["t"] for i in var["inputs"]]), case,
                "program:%s:%s" % (d[0], base[1] if base[0] == "fail" else (names[0] if names else "-")))
    return base[0]


INSTR_ANNOTS = {"CAR": ["%f"], "CDR": ["%f"], "UNPAIR": ["%f", "%g"], "PAIR": ["%f", "%g"], "LEFT": ["%f", "%g"], "RIGHT": ["%f", "%g"],
                "SOME": ["%f"], "GET": ["%f"], "UPDATE": ["%f"], "PUSH": ["@v"], "DUP": ["@v"], "NIL": ["@v"], "CONS": ["@v"]}


@st.composite
def sprinkle(draw, code):
    """Annotations on INSTRUCTIONS (accessor field names, variable names): part of the program text, identical in every
    variant; they never have to match the names written in types."""
    def walk(e):
        if isinstance(e, list):
            return [walk(x) for x in e]
        if not isinstance(e, dict) or "prim" not in e or _is_type(e):
            return e
        out = dict(e)
        if e.get("args"):
            out["args"] = [walk(a) if isinstance(a, list) else a for a in e["args"]]
        opts = INSTR_ANNOTS.get(e["prim"])
        if opts and "annots" not in e and draw(st.integers(0, 1 if e["prim"] in ("CAR", "CDR", "UNPAIR") else 3)) == 0:
            names = draw(st.sampled_from([["%a"], ["%b"], ["%a", "%b"], ["@x"], ["%owner"], ["%"]]))
            out["annots"] = names[:len(opts)] if opts[0].startswith("%") else ["@x"]
        return out
    return walk(code)


@st.composite
def program_cases(draw, size, depth):
    prog = draw(gp.programs(size=size, depth=depth, profile=draw(st.sampled_from(["combs", "combs", "core"])), keep_lambdas=True))
    if draw(st.integers(0, 2)):
        prog["code"] = draw(sprinkle(prog["code"]))
    names = gp.instr_names(prog["code"])
    # lambda code is data for PACK / FAILWITH / a lambda left on the stack: annotations written inside a lambda body are
    # legitimately visible there. Half of the cases leave lambda bodies untouched and then compare lambda values literally.
    annotate_bodies = draw(st.booleans()) and not (names & {"PACK", "FAILWITH"})
    skip = not annotate_bodies
    variants = []
    for _ in range(2):
        code = draw(annotate_code(prog["code"], skip))
        inputs = [{"t": draw(gt.decorate(i["t"], False, 0.5, 0.2)), "v": i["v"]} for i in prog["inputs"]]
        variants.append({"code": code, "inputs": inputs})
    return {"kind": "program", "inputs": prog["inputs"], "code": prog["code"], "variants": variants, "annotate_bodies": annotate_bodies,
            "env": xc.env_to_json(draw(gp.env_strategy()))}


def _prop_program(case, stats):
    try:
        outcome = oracle_program(case)
    except ri.IllTyped:
        stats.extra["generator_illtyped"] += 1
        return
    names = gp.instr_names(case["code"])
    inner = any(_inner_comb_annotated(t) for v in case["variants"] for t in
                list(_types_in(v["code"])) + [i["t"] for i in v["inputs"]])
    nt = inner and bool(names & COMB_INSTR)
    stats.case([case["code"], case["inputs"], case["variants"]], nt, "program:" + outcome,
               sample={"annotated_code": xc._short(case["variants"][0]["code"])[:400],
                       "annotated_inputs": [i["t"] for i in case["variants"][0]["inputs"]][:2]})
    for n in names & COMB_INSTR:
        stats.extra["instr:" + n] += 1
    if inner:
        stats.label("inner-comb-node-annotated")


# ---- (B) values --------------------------------------------------------------------------------------------------
def _cls(t):
    from pytezos.michelson.types.base import MichelsonType
    import pytezos.michelson.types  # noqa: F401
    return MichelsonType.match(t)


def _value_views(t, readable):
    cls = _cls(t)
    obj = cls.from_micheline_value(readable)
    packed = obj.pack()
    st_t = norm_type(t)
    # renderings are compared as Tezos values (after the reference parser): the spelling of a comb is not an observable
    opt = rv.from_micheline(st_t, obj.to_micheline_value(mode="optimized"))
    rd = rv.from_micheline(st_t, obj.to_micheline_value(mode="readable"))
    back = rv.from_micheline(st_t, cls.unpack(packed).to_micheline_value(mode="optimized"))
    return {"pack": packed.hex(), "optimized": opt, "readable": rd, "unpack": back}


def oracle_value(case):
    t = case["t"]
    try:
        base = _value_views(t, case["v"])
    except Exception as e:
        raise Violation("pack/unpack raised %r on the un-annotated type %s" % (e, t), case, "value:base-raise")
    want = rv.pack(t, rv.from_micheline(t, case["v"]))
    if base["pack"] != want.hex():
        return "c04-subject"  # a PACK defect that does not depend on annotations is C04's subject
    for at in case["annotated"]:
        try:
            got = _value_views(at, case["v"])
        except Exception as e:
            raise Violation("pack/unpack of %s raised %r under the annotated type %s (fine without annotations)" % (
                case["v"], e, at), case, "value:raise:%s" % type(e).__name__)
        for k in ("pack", "optimized", "readable", "unpack"):
            if got[k] != base[k]:
                raise Violation("%s of %s differs: %s under %s, %s without annotations" % (
                    k, case["v"], got[k], at, base[k]), case, "value:%s" % k)
    return "ok"


def _ticket_views(ct, tv):
    """A ticket value received from outside (parameter / storage / big_map value) at content type ct: what READ_TICKET sees and how
    the ticket renders, as Tezos values of `pair address <content> nat`."""
    from pytezos.michelson.stack import MichelsonStack
    cls = _cls(rv.T("ticket", ct))
    obj = cls.from_micheline_value(tv)
    shape = rv.pair_t(rv.T("address"), norm_type(ct), rv.T("nat"))
    out = {"optimized": rv.from_micheline(shape, obj.to_micheline_value(mode="optimized")),
           "readable": rv.from_micheline(shape, obj.to_micheline_value(mode="readable"))}
    stack = MichelsonStack()
    stack.push(obj)
    stk, _, err = interp.run([{"prim": "READ_TICKET"}], stack=stack)
    if err is not None:
        raise RuntimeError("READ_TICKET failed: %r" % (err.args,))
    ty, m = interp.read_item(stk.items[0])
    out["read"] = rv.from_micheline(shape, m)
    return out


def oracle_ticket(case):
    ct, tv = case["ct"], case["v"]
    try:
        base = _ticket_views(ct, tv)
    except Exception as e:
        raise Violation("a ticket value %s of content type %s is not usable (%r) without annotations" % (tv, ct, e), case, "ticket:base-raise")
    shape = rv.pair_t(rv.T("address"), ct, rv.T("nat"))
    want = rv.from_micheline(shape, tv)
    for k, v in base.items():
        if v != want:
            raise Violation("ticket %s at content type %s: %s gives %r, the value is %r" % (tv, ct, k, v, want), case, "ticket:base-" + k)
    for at in case["annotated"]:
        try:
            got = _ticket_views(at, tv)
        except Exception as e:
            raise Violation("ticket %s: fine at content type %s, fails (%r) at the annotated content type %s" % (tv, ct, e, at), case,
                            "ticket:raise:%s" % type(e).__name__)
        for k in base:
            if got[k] != base[k]:
                raise Violation("ticket %s: %s is %r under content type %s and %r without annotations" % (tv, k, got[k], at, base[k]), case,
                                "ticket:" + k)
    return "ok"


@st.composite
def ticket_cases(draw):
    ct = draw(gt.comparable_types(2, ["int", "nat", "string", "bytes", "bool", "unit"]))
    if ct["prim"] != "pair" and draw(st.booleans()):
        ct = rv.T("pair", ct, draw(gt.comparable_types(1, ["nat", "string", "int"])))
    c = draw(gt.values(ct))
    amount = draw(st.integers(1, 10 ** 6))
    addr = rv.from_micheline(rv.T("address"), {"string": "KT1BEqzn5Wx8uJrZNvuS9DVHmLvG9td3fDLi"})
    shape = rv.pair_t(rv.T("address"), ct, rv.T("nat"))
    tv = rv.to_micheline(shape, (addr, (c, amount)))
    if draw(st.booleans()):  # the other legal spelling of a comb of three
        tv = {"prim": "Pair", "args": [tv["args"][0], {"prim": "Pair", "args": tv["args"][1:]}]} if len(tv.get("args", [])) == 3 else tv
    return {"kind": "ticket", "ct": ct, "v": tv, "annotated": [draw(gt.decorate(ct, False, 0.5, 0.4)) for _ in range(2)]}


def _prop_ticket(case, stats):
    oracle_ticket(case)
    stats.case([case["ct"], case["v"], case["annotated"]], case["ct"]["prim"] == "pair", "ticket-value", sample={"content": case["ct"], "value": case["v"]})


@st.composite
def value_cases(draw, depth):
    shape = draw(st.sampled_from(["comb", "comb", "any"]))
    leaves = ["int", "nat", "string", "bytes", "bool", "unit", "mutez", "key_hash", "address", "timestamp"]
    if shape == "comb":
        n = draw(st.integers(3, 7))
        comps = [draw(gt.types(draw(st.integers(0, 1)), leaves=leaves)) for _ in range(n)]
        t = rv.pair_t(*comps)
        wrap = draw(st.sampled_from(["none", "option", "list", "left", "pairleft", "mapval"]))
        if wrap == "option":
            t = rv.T("option", t)
        elif wrap == "list":
            t = rv.T("list", t)
        elif wrap == "left":
            t = rv.T("or", t, rv.T("unit"))
        elif wrap == "pairleft":
            t = rv.T("pair", t, rv.T("nat"))
        elif wrap == "mapval":
            t = rv.T("map", rv.T("nat"), t)
    else:
        t = draw(gt.types(depth, leaves=leaves))
    v = draw(gt.values(t))
    annotated = [draw(gt.decorate(t, False, 0.5, 0.25)) for _ in range(2)]
    return {"kind": "value", "t": t, "v": rv.to_micheline(t, v), "annotated": annotated}


def _prop_value(case, stats):
    r = oracle_value(case)
    if r != "ok":
        stats.extra[r] += 1
        return
    inner = any(_inner_comb_annotated(a) for a in case["annotated"])
    stats.case([case["t"], case["v"], case["annotated"]], inner, "value", sample={"annotated_type": case["annotated"][0],
                                                                                "value": case["v"]})


# ---- entry points ------------------------------------------------------------------------------------------------
def replay(case):
    if case.get("kind") == "ticket":
        oracle_ticket(case)
    elif case.get("kind") == "value":
        oracle_value(case)
    else:
        oracle_program(case)


def run(h):
    size, depth = ((1, 7), 2) if h.quick else ((1, 16), 3)
    h.run_given(lambda: program_cases(size, depth), _prop_program, h.n(70, 1200), shards=16, name="programs")
    h.run_given(lambda: value_cases(2 if h.quick else 3), _prop_value, h.n(120, 3000), shards=16, name="values")
    h.run_given(ticket_cases, _prop_ticket, h.n(40, 1500), shards=16, name="ticket-values")
    h.coverage_extra["comb_instruction_histogram"] = {k[6:]: v for k, v in sorted(h.stats.extra.items())
                                                      if k.startswith("instr:")}
    for k in [k for k in h.stats.extra if k.startswith("instr:")]:
        del h.stats.extra[k]
    ill = h.stats.extra.get("generator_illtyped", 0)
    if ill > 0.05 * max(1, h.stats.evaluations):
        raise Inconclusive("generator produced %d ill-typed programs out of %d" % (ill, h.stats.evaluations))
    h.assumptions.append("annotations inside lambda bodies are left untouched when the program contains PACK or FAILWITH "
                         "(lambda code is data there, so annotations inside it are legitimately observable)")
    h.assumptions.append("final-stack values are compared as Tezos values (after the reference parser) and through "
                         "pack() bytes, not through pytezos' Micheline spelling of combs")
