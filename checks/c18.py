"""C18 — Michelson text formatting and parsing are inverse."""
from hypothesis import strategies as st

from vlib import gen_micheline as gm
from vlib import ref_micheline as rm
from vlib.harness import Violation

PID = "C18"
RULE = ("grammar-generated Micheline denoting types (every type primitive incl. chest/chest_key/tx_rollup_l2_address/"
        "sapling_*/ticket/constant, annotated at any position), data (every constructor incl. Lambda_rec, Ticket, Elt "
        "in sequences, negative ints, empty/nested sequences, printable strings with quote/backslash/newline/#//*), "
        "code (every instruction primitive with its argument shape, annotations) and scripts; root = script, "
        "sequence, application or literal; both inline and multi-line layout (long expressions force line "
        "breaking). Oracle: normalize(parse(format(e, inline))) == normalize(e). Non-trivial: an annotated or "
        "argument-bearing primitive occurs in argument position, or a string needs escaping, or the text spans "
        "several lines. Distinct = distinct (expression, layout).")

SIMPLE_T = ["unit", "never", "bool", "int", "nat", "string", "chain_id", "bytes", "mutez", "key_hash", "key",
            "signature", "timestamp", "address", "operation", "bls12_381_g1", "bls12_381_g2", "bls12_381_fr", "chest",
            "chest_key", "tx_rollup_l2_address"]
INSTR0 = [p for p in rm.PRIMS if p.isupper() and p not in (
    "CREATE_ACCOUNT", "STEPS_TO_QUOTA", "NIL", "NONE", "LEFT", "RIGHT", "EMPTY_SET", "CONTRACT", "CAST", "UNPACK",
    "EMPTY_MAP", "EMPTY_BIG_MAP", "PUSH", "LAMBDA", "LAMBDA_REC", "DIP", "LOOP", "LOOP_LEFT", "ITER", "MAP", "IF",
    "IF_NONE", "IF_LEFT", "IF_CONS", "VIEW", "CREATE_CONTRACT", "SAPLING_EMPTY_STATE", "EMIT")]
EXPR_HASH = "exprtZBwZUeYYYfUs9B9Rg2ywHezVHnCCnmF9WsDQVrs582dSK63dC"

ann_t = st.lists(st.one_of(gm.annots_simple(), gm.annot()), min_size=0, max_size=2)


def _ann(draw, p=0.3, strat=None):
    if draw(st.floats(0, 1)) < p:
        return draw(st.lists(strat or gm.annot(), min_size=1, max_size=2))
    return []


def _mk(prim, args=None, annots=None):
    e = {"prim": prim}
    if args:
        e["args"] = args
    if annots:
        e["annots"] = annots
    return e


@st.composite
def types(draw, depth=3):
    an = _ann(draw, 0.35)
    if depth <= 0 or draw(st.integers(0, 2)) == 0:
        k = draw(st.integers(0, 12))
        if k == 0:
            return _mk(draw(st.sampled_from(["sapling_state", "sapling_transaction",
                                             "sapling_transaction_deprecated"])), [{"int": str(draw(st.integers(0, 9)))}], an)
        if k == 1:
            return _mk("constant", [{"string": EXPR_HASH}])
        return _mk(draw(st.sampled_from(SIMPLE_T)), None, an)
    k = draw(st.sampled_from(["option", "list", "set", "contract", "ticket", "pair", "pairN", "or", "map", "big_map",
                              "lambda"]))
    if k in ("option", "list", "set", "contract", "ticket"):
        return _mk(k, [draw(types(depth - 1))], an)
    if k == "pairN":
        return _mk("pair", [draw(types(depth - 1)) for _ in range(draw(st.integers(3, 5)))], an)
    return _mk(k, [draw(types(depth - 1)), draw(types(depth - 1))], an)


def ints():
    return st.one_of(st.integers(-10, 10), gm.big_ints()).map(lambda v: {"int": str(v)})


def mstrings():
    printable = st.text(alphabet=st.characters(min_codepoint=32, max_codepoint=126), max_size=14)
    spaced = st.lists(st.sampled_from(["a", "b", " ", "  ", "   ", "\n", "\"", "\\", ";", "x y"]), max_size=6).map("".join)
    return st.one_of(printable, spaced, st.sampled_from(["", "\n", "\"", "\\", "a\"b", "a\\nb", "line1\nline2", "#", "# no comment",
                                                 "/* x */", "a ; b", "{ }", "(", "0x00", "%a", " ", "  ", "two  blanks", " lead", "trail ",
                                                 "\n\n", " \n "])).map(
        lambda s: {"string": s})


@st.composite
def data(draw, depth=3):
    if depth <= 0 or draw(st.integers(0, 2)) == 0:
        return draw(st.one_of(ints(), mstrings(), gm.hexbytes().map(lambda h: {"bytes": h}),
                              st.sampled_from(["Unit", "True", "False", "None"]).map(lambda p: {"prim": p})))
    k = draw(st.sampled_from(["Some", "Left", "Right", "Pair", "PairN", "seq", "map", "lambda", "Lambda_rec", "Ticket",
                              "constant", "nested"]))
    if k in ("Some", "Left", "Right"):
        return _mk(k, [draw(data(depth - 1))])
    if k == "Pair":
        return _mk("Pair", [draw(data(depth - 1)), draw(data(depth - 1))])
    if k == "PairN":
        return _mk("Pair", [draw(data(depth - 1)) for _ in range(draw(st.integers(3, 5)))])
    if k == "seq":
        return [draw(data(depth - 1)) for _ in range(draw(st.integers(0, 4)))]
    if k == "nested":
        return [[draw(data(depth - 1)) for _ in range(draw(st.integers(0, 2)))] for _ in range(draw(st.integers(1, 3)))]
    if k == "map":
        return [_mk("Elt", [draw(data(depth - 1)), draw(data(depth - 1))]) for _ in range(draw(st.integers(1, 3)))]
    if k == "lambda":
        return draw(code(depth - 1))
    if k == "Lambda_rec":
        return _mk("Lambda_rec", [draw(code(depth - 1))])
    if k == "Ticket":
        return _mk("Ticket", [{"string": "KT1BEqzn5Wx8uJrZNvuS9DVHmLvG9td3fDLi"}, draw(types(1)), draw(data(depth - 1)),
                              {"int": str(draw(st.integers(1, 99)))}])
    return _mk("constant", [{"string": EXPR_HASH}])


@st.composite
def instr(draw, depth=3):
    an = _ann(draw, 0.25)
    k = draw(st.integers(0, 19))
    if k <= 7 or depth <= 0:
        return _mk(draw(st.sampled_from(INSTR0)), None, an)
    if k == 8:
        p = draw(st.sampled_from(["NIL", "NONE", "LEFT", "RIGHT", "EMPTY_SET", "CONTRACT", "CAST", "UNPACK", "EMIT"]))
        return _mk(p, [draw(types(depth - 1))], an)
    if k == 9:
        return _mk(draw(st.sampled_from(["EMPTY_MAP", "EMPTY_BIG_MAP"])), [draw(types(1)), draw(types(depth - 1))], an)
    if k == 10:
        return _mk(draw(st.sampled_from(["DROP", "DUP", "DIG", "DUG", "PAIR", "UNPAIR", "GET", "UPDATE",
                                         "SAPLING_EMPTY_STATE"])), [{"int": str(draw(st.integers(0, 12)))}], an)
    if k in (11, 12):
        return _mk("PUSH", [draw(types(depth - 1)), draw(data(depth - 1))], an)
    if k == 13:
        return _mk(draw(st.sampled_from(["LAMBDA", "LAMBDA_REC"])),
                   [draw(types(1)), draw(types(1)), draw(code(depth - 1))], an)
    if k == 14:
        return _mk(draw(st.sampled_from(["DIP", "LOOP", "LOOP_LEFT", "ITER", "MAP"])), [draw(code(depth - 1))], an)
    if k == 15:
        return _mk("DIP", [{"int": str(draw(st.integers(0, 5)))}, draw(code(depth - 1))])
    if k in (16, 17):
        return _mk(draw(st.sampled_from(["IF", "IF_NONE", "IF_LEFT", "IF_CONS"])),
                   [draw(code(depth - 1)), draw(code(depth - 1))])
    if k == 18:
        return _mk("VIEW", [{"string": draw(st.sampled_from(["get", "a.b", "v_1"]))}, draw(types(1))], an)
    return _mk("CREATE_CONTRACT", [draw(script(depth - 1))])


@st.composite
def code(draw, depth=3):
    n = draw(st.integers(0, 4))
    out = []
    for _ in range(n):
        if depth > 0 and draw(st.integers(0, 7)) == 0:
            out.append(draw(code(depth - 1)))  # bare nested block
        else:
            out.append(draw(instr(depth)))
    return out


@st.composite
def script(draw, depth=2):
    secs = [_mk("parameter", [draw(types(depth))]), _mk("storage", [draw(types(depth))]),
            _mk("code", [draw(code(depth))])]
    if draw(st.integers(0, 3)) == 0:
        secs.append(_mk("view", [{"string": "v"}, draw(types(1)), draw(types(1)), draw(code(1))]))
    return secs


@st.composite
def cases(draw, depth):
    kind = draw(st.sampled_from(["type", "data", "data", "code", "code", "instr", "script", "long"]))
    if kind == "type":
        e = draw(types(depth))
    elif kind == "data":
        e = draw(data(depth))
    elif kind == "code":
        e = draw(code(depth))
    elif kind == "instr":
        e = draw(instr(depth))
    elif kind == "script":
        e = draw(script(min(depth, 3)))
    else:  # long flat things force the line-breaking branches
        e = [draw(instr(1)) for _ in range(draw(st.integers(12, 30)))] if draw(st.booleans()) else \
            _mk("Pair", [draw(data(1)) for _ in range(draw(st.integers(8, 20)))])
    return {"e": e, "inline": draw(st.booleans()), "kind": kind}


def norm(e):
    if isinstance(e, list):
        return [norm(x) for x in e]
    return rm.normalize({k: ([norm(a) for a in v] if k == "args" else v) for k, v in e.items()}) \
        if "prim" in e else rm.normalize(e)


def features(e, in_arg=False, acc=None):
    acc = acc if acc is not None else set()
    if isinstance(e, list):
        for x in e:
            features(x, False, acc)
    elif "prim" in e:
        if in_arg and (e.get("args") or e.get("annots")):
            acc.add("app-in-arg")
            if e["prim"] in ("chest", "chest_key", "tx_rollup_l2_address", "constant", "Lambda_rec", "Ticket"):
                acc.add("rare-framed:" + e["prim"])
        for a in e.get("annots", []):
            if any(c in a[1:] for c in "%@"):
                acc.add("annot-inner-%@")
        for a in e.get("args", []):
            features(a, True, acc)
    elif "string" in e:
        if any(c in e["string"] for c in "\"\\\n"):
            acc.add("escaped-string")
    elif "int" in e and int(e["int"]) < 0:
        acc.add("negative-int")
    return acc


def oracle(case):
    from pytezos.michelson.format import micheline_to_michelson
    from pytezos.michelson.parse import michelson_to_micheline
    e, inline = case["e"], case["inline"]
    try:
        text = micheline_to_michelson(e, inline=inline)
    except Exception as ex:
        raise Violation("micheline_to_michelson raised %r on %r" % (ex, e), case, "format-raise")
    try:
        back = michelson_to_micheline(text, parser=_parser())
    except Exception as ex:
        raise Violation("formatted text does not parse: %r\n text=%r\n expr=%r" % (ex, text[:300], e), case,
                        "parse-raise:" + _blame(e))
    if norm(back) != norm(e):
        raise Violation("format/parse changed the expression (inline=%s):\n text=%r\n expr=%r\n back=%r"
                        % (inline, text[:300], norm(e), norm(back)), case, "mismatch:" + _blame(e))
    return text


_P = []


def _parser():
    if not _P:
        from pytezos.michelson.parse import MichelsonParser
        _P.append(MichelsonParser())
    return _P[0]


def _blame(e):
    f = sorted(x for x in features(e) if x.startswith("rare-framed") or x == "annot-inner-%@")
    return ",".join(f) or "other"


def replay(case):
    oracle(case)


def _prop(case, stats):
    text = oracle(case)
    f = features(case["e"])
    multi = "\n" in text
    nt = bool(f & {"app-in-arg", "escaped-string"}) or multi
    stats.case(case, nt, "%s:%s" % (case["kind"], "inline" if case["inline"] else ("multiline" if multi else "oneline")),
               sample={"text": text[:200], "inline": case["inline"]})
    for x in f:
        stats.label(x)


def run(h):
    depth = 3 if h.quick else 5
    h.run_given(lambda: cases(depth), _prop, h.n(300, 5000), shards=8 if h.quick else 16)
