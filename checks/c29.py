"""C29 — chain-history search reports exactly the state changes."""
import itertools

from hypothesis import strategies as st

from vlib.harness import Violation

PID = "C29"
RULE = ("histories = (last, head, change levels in (last, head], value kind, step): exhaustive for range lengths "
        "1..N (N=24 quick, 40 thorough) with 0..2 change points and steps {1,2,7,60}; hypothesis-sampled ranges up to "
        "300 levels with up to 6 change points and steps 1..400; values are fresh tokens (never return to an earlier "
        "value) of kind str/int/dict/tuple, records compared through a caller-supplied `equals` on one field while another field moves at every level, histories that start from None or pass through None, and falsy values (0, '', [], {}, ()); oracle: find_state_changes == [(level, new value)] increasing, "
        "find_state_change == first change, get() only called inside [last, head]. Non-trivial: >=1 change point. "
        "Distinct = distinct history.")

KINDS = ["str", "int", "dict", "tuple", "none-first", "none-later", "falsy", "coarse", "coarse"]
# "coarse": the caller watches one field of a record whose other fields move at every level (`equals` compares that field only)


def _val(kind, i):
    if kind == "none-first":   # nothing stored before the first change (e.g. a contract not yet originated)
        return None if i == 0 else "v%d" % i
    if kind == "none-later":   # the value disappears at the first change and comes back different afterwards
        return None if i == 1 else "v%d" % i
    if kind == "falsy":        # falsy but real values: 0, "", [] ...
        return [0, "", [], {}, (), None, "x", 7][i] if i < 8 else i + 100
    if kind == "str":
        return "v%d" % i
    if kind == "int":
        return i
    if kind == "dict":
        return {"yay": i, "nay": 0}
    return ("t", i)


def oracle(case):
    from pytezos.rpc.search import find_state_change, find_state_changes
    last, head, cps, kind, step = case["last"], case["head"], sorted(case["cps"]), case["kind"], case["step"]
    calls = []

    budget = 40 * (head - last + 10)

    def get(level):
        calls.append(level)
        if len(calls) > budget:  # deterministic stand-in for "does not terminate": far above any bisecting search
            raise MemoryError("get() called more than %d times" % budget)
        if not (last <= level <= head):
            raise IndexError("get(%d) outside [%d, %d]" % (level, last, head))
        if kind == "coarse":
            return {"yay": sum(1 for c in cps if c <= level), "level": level}
        return _val(kind, sum(1 for c in cps if c <= level))

    def eq(a, b):
        if kind == "coarse":
            return a["yay"] == b["yay"]
        return a == b

    want = [(c, _val(kind, i + 1)) for i, c in enumerate(cps)]
    if kind == "coarse":
        want = [(c, {"yay": i + 1, "level": c}) for i, c in enumerate(cps)]
    try:
        got = list(find_state_changes(head, last, get, eq, step=step))
    except (RecursionError, MemoryError):
        raise Violation("find_state_changes does not terminate on %s" % case, case, "nontermination")
    except IndexError as e:
        raise Violation("find_state_changes: %s (case %s)" % (e, case), case, "get-outside-range")
    except Exception as e:
        raise Violation("find_state_changes raised %r on %s" % (e, case), case, "raise:%s" % type(e).__name__)
    got = [tuple(x) for x in got]
    if got != want:
        sig = "wrong-changes"
        if sorted(got, key=lambda x: x[0]) == want:
            sig = "order"
        elif len(got) < len(want):
            sig = "missed-change"
        raise Violation("find_state_changes(head=%d,last=%d,step=%d) changes at %s: got %s want %s"
                        % (head, last, step, cps, got, want), case, sig)
    if cps:
        calls.clear()
        try:
            res = find_state_change(head, last, get, eq, pred_value=get(last) if kind == "coarse" else _val(kind, 0))
        except (RecursionError, MemoryError):
            raise Violation("find_state_change does not terminate on %s" % case, case, "single-nontermination")
        except IndexError as e:
            raise Violation("find_state_change: %s" % e, case, "single-get-outside-range")
        except Exception as e:
            raise Violation("find_state_change raised %r on %s" % (e, case), case, "single-raise:%s" % type(e).__name__)
        if tuple(res) != want[0]:
            raise Violation("find_state_change(head=%d,last=%d) changes at %s: got %s want %s"
                            % (head, last, cps, res, want[0]), case, "single-wrong")


def replay(case):
    oracle(case)


def _prop(case, stats):
    oracle(case)
    cps, last, step = case["cps"], case["last"], case["step"]
    near = any(c - last <= step for c in cps)
    stats.case(case, len(cps) >= 1, "cps=%d%s" % (min(len(cps), 3), "/near-last" if near else ""), sample=case)


def gen():
    @st.composite
    def s(draw):
        last = draw(st.sampled_from([0, 1, 5, 1000]))
        n = draw(st.integers(1, 300))
        head = last + n
        k = draw(st.integers(0, 6))
        cps = sorted(draw(st.sets(st.integers(last + 1, head), max_size=k)))
        # cluster some change points next to each other and next to the ends
        if cps and draw(st.booleans()):
            c = draw(st.sampled_from(cps))
            extra = [x for x in (c + 1, last + 1, head) if last < x <= head]
            cps = sorted(set(cps) | set(extra[:draw(st.integers(0, 3))]))
        step = draw(st.sampled_from([1, 2, 3, 7, 60, n, n + 1, 400]) | st.integers(1, 120))
        return {"last": last, "head": head, "cps": cps, "kind": draw(st.sampled_from(KINDS)), "step": step}
    return s()


def run(h):
    N = 24 if h.quick else 40
    items = []
    for n in range(1, N + 1):
        levels = list(range(1, n + 1))
        for k in (0, 1, 2):
            for cps in itertools.combinations(levels, k):
                for si, step in enumerate((1, 2, 7, 60)):
                    last = (3, 0)[(n + si) % 2]
                    items.append({"last": last, "head": last + n, "cps": [last + c for c in cps],
                                  "kind": KINDS[(n + k + si + len(items)) % len(KINDS)], "step": step})
    h.exhaustive = True
    h.coverage_extra["exhaustive_subdomain"] = "range lengths 1..%d x <=2 change points x steps {1,2,7,60}" % N
    h.run_enum(items, _prop, shards=16)
    h.run_given(gen, _prop, h.n(500, 5000), shards=4 if h.quick else 16, name="sampled")
