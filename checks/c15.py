"""C15 — big map operations and lazy diffs agree with a layered dictionary model."""
from hashlib import blake2b

from hypothesis import strategies as st

from vlib import fake_node
from vlib import gen_types as gt
from vlib import interp
from vlib import ref_crypto as rc
from vlib import ref_values as rv
from vlib.harness import Violation

PID = "C15"
RULE = ("histories of 1..12 (quick) / 1..30 GET / MEM / UPDATE / GET_AND_UPDATE operations on a big_map in contract "
        "storage, run through Interpreter.run_code; key types nat, string, pair nat string, or nat bool, bytes, "
        "pair nat (pair nat (pair nat nat)); universes of 2..5 keys; on-chain content = any subset of the universe served "
        "by a fake node under id 42 (or a fresh literal in storage); chains of 1..3 calls where the previous lazy diff is "
        "applied to the fake chain first. Oracle: layered dict; every logged observation equals the model's; the lazy "
        "diff applied as a mapping to the on-chain content (alloc: from empty under the new id) equals the model's "
        "final dict; each entry's key_hash == b58('expr', blake2b(legacy PACK of the key)). Non-trivial: a key is "
        "removed and re-inserted, or a key present only on chain is updated. Second tier: two big maps (each on chain or a literal, different "
        "contents over one key universe) in one storage, operations addressed to either, reads through and continuation with copies obtained "
        "by DUP of the enclosing pair / option / the map itself; both lazy diffs are applied and compared; non-trivial there: the same "
        "key asked from two on-chain maps in one execution, or a copy taken after an on-chain key was removed. Distinct = distinct history.")

VT = rv.T("nat")
KEY_TYPES = [rv.T("nat"), rv.T("string"), rv.T("pair", rv.T("nat"), rv.T("string")), rv.T("or", rv.T("nat"), rv.T("bool")),
             rv.T("bytes"), rv.pair_t(rv.T("nat"), rv.T("nat"), rv.T("nat"), rv.T("nat")), rv.T("key_hash"), rv.T("address")]


VTS = {"nat": rv.T("nat"), "string": rv.T("string"), "list": rv.T("list", rv.T("nat")), "option": rv.T("option", rv.T("nat"))}


def val_of(vname, n):
    """typed reference value for the generated integer n; except for nat, n % 3 == 0 gives the type's falsy inhabitant"""
    if vname == "nat":
        return n
    if vname == "string":
        return "" if n % 3 == 0 else "s%d" % n
    if vname == "list":
        return [] if n % 3 == 0 else [n]
    return None if n % 3 == 0 else ("Some", n)


def key_hash(kt, k):
    return rc.tz_encode(blake2b(rv.pack(kt, k, legacy=True), digest_size=32).digest(), "expr")


def build_code(kt, ops, keys, vname="nat", where="storage"):
    VT = VTS[vname]
    optv = rv.T("option", VT)
    log_t = rv.T("or", optv, rv.T("bool"))
    code = [{"prim": "CDR"}, {"prim": "UNPAIR"}] if where == "storage" else [{"prim": "UNPAIR"}]
    tail = [{"prim": "DIG", "args": [{"int": "2"}]}, {"prim": "SWAP"}, {"prim": "CONS"}, {"prim": "SWAP"}]
    for op in ops:
        k = interp.push(kt, rv.to_micheline(kt, keys[op["key"]]))
        val = op.get("val")
        ov = interp.push(optv, {"prim": "None"} if val is None else {"prim": "Some", "args": [rv.to_micheline(VT, val_of(vname, val))]})
        if op["op"] == "UPDATE":
            code += [ov, k, {"prim": "UPDATE"}]
        elif op["op"] == "GET":
            code += [{"prim": "DUP"}, k, {"prim": "GET"}, {"prim": "LEFT", "args": [rv.T("bool")]}] + tail
        elif op["op"] == "MEM":
            code += [{"prim": "DUP"}, k, {"prim": "MEM"}, {"prim": "RIGHT", "args": [optv]}] + tail
        else:
            code += [ov, k, {"prim": "GET_AND_UPDATE"}, {"prim": "LEFT", "args": [rv.T("bool")]}] + tail
    if where == "parameter":  # the big_map came in as the parameter (by identifier); only the observations are kept
        code += [{"prim": "DROP"}, {"prim": "NIL", "args": [rv.T("operation")]}, {"prim": "PAIR"}]
        return [{"prim": "parameter", "args": [rv.T("big_map", kt, VT)]}, {"prim": "storage", "args": [rv.T("list", log_t)]},
                {"prim": "code", "args": [code]}], log_t
    code += [{"prim": "PAIR"}, {"prim": "NIL", "args": [rv.T("operation")]}, {"prim": "PAIR"}]
    storage_t = rv.T("pair", rv.T("big_map", kt, VT), rv.T("list", log_t))
    return [{"prim": "parameter", "args": [rv.T("unit")]}, {"prim": "storage", "args": [storage_t]},
            {"prim": "code", "args": [code]}], log_t


def oracle(case):
    from pytezos.michelson.repl import Interpreter
    kt = case["kt"]
    vname, where = case.get("vt", "nat"), case.get("where", "storage")
    VT = VTS[vname]
    V = lambda n: val_of(vname, n)  # noqa: E731
    vm = lambda n: rv.to_micheline(VT, val_of(vname, n))  # noqa: E731
    keys = [rv.from_micheline(kt, k) for k in case["keys"]]
    node = fake_node.FakeNode()
    chain = {}        # key index -> value, content of the on-chain big map
    bm_id = None
    if case["on_chain"] is not None:
        bm_id = 42
        chain = {int(i): v for i, v in case["on_chain"].items()}
        node.big_maps[42] = {key_hash(kt, keys[i]): vm(v) for i, v in chain.items()}
    model = dict(chain)
    if bm_id is None:
        model = {int(i): v for i, v in case["literal"].items()}
    nontrivial = False
    for call_no, ops in enumerate(case["calls"]):
        script, log_t = build_code(kt, ops, keys, vname, where)
        if bm_id is not None:
            bm_storage = {"int": str(bm_id)}
        else:
            ids = sorted(model, key=lambda i: None) if False else rv.sort_values(kt, [keys[i] for i in model])
            bm_storage = [{"prim": "Elt", "args": [rv.to_micheline(kt, k), vm(model[keys.index(k)])]} for k in ids]
        storage = {"prim": "Pair", "args": [bm_storage, []]}
        # expected observations
        expected, m = [], dict(model)
        removed = set()
        for op in ops:
            i = op["key"]
            if op["op"] == "GET":
                expected.append(("Left", ("Some", V(m[i])) if i in m else None))
            elif op["op"] == "MEM":
                expected.append(("Right", i in m))
            else:
                if op["op"] == "GET_AND_UPDATE":
                    expected.append(("Left", ("Some", V(m[i])) if i in m else None))
                if i in chain and i not in removed and op.get("val") is not None:
                    nontrivial = True  # update of a key that so far exists only on chain
                if op.get("val") is None:
                    if i in m:
                        removed.add(i)
                    m.pop(i, None)
                else:
                    if i in removed:
                        nontrivial = True
                    m[i] = op["val"]
        try:
            if where == "parameter":
                res = Interpreter.run_code(parameter={"int": str(bm_id)}, storage=[], script=script,
                                           shell=fake_node.shell(node), output_mode="optimized")
            else:
                res = Interpreter.run_code(parameter={"prim": "Unit"}, storage=storage, script=script,
                                           shell=fake_node.shell(node), output_mode="optimized")
        except Exception as e:
            raise Violation("run_code raised %r (call %d, ops %s)" % (e, call_no, ops), case, "run_code-raise")
        operations, new_storage, lazy_diff, stdout, err = res
        if err is not None:
            raise Violation("contract failed: %r (call %d, key type %s, ops %s)" % (err.args, call_no, kt, ops), case,
                            "contract-failed:" + str(err.args[0]))
        st_t = rv.T("pair", rv.T("nat") if True else None, rv.T("list", log_t))
        try:
            if where == "parameter":
                ptr = None
                log = rv.from_micheline(rv.T("list", log_t), new_storage)
            else:
                ptr = int(new_storage["args"][0]["int"])
                log = rv.from_micheline(rv.T("list", log_t), new_storage["args"][1])
        except Exception as e:
            raise Violation("unexpected storage shape %s (%r)" % (new_storage, e), case, "storage-shape")
        log = list(reversed(log))
        if log != expected:
            j = next((j for j, (a, b) in enumerate(zip(log, expected)) if a != b), min(len(log), len(expected)))
            raise Violation("observation #%d differs: got %s, layered-dict model %s; call %d ops %s; on-chain %s" % (
                j, log[j] if j < len(log) else None, expected[j] if j < len(expected) else None, call_no, ops, chain), case,
                "observation:" + _obs_kind(ops, j))
        if where == "parameter":
            continue  # the map was dropped: nothing is stored, the same on-chain map is read again by the next call
        # apply the lazy diff as a mapping
        diffs = [d for d in lazy_diff if d.get("kind") == "big_map"]
        if len(diffs) != 1:
            raise Violation("expected one big_map diff, got %s" % lazy_diff, case, "diff-count")
        d = diffs[0]
        action = d["diff"]["action"]
        if action == "alloc":
            base = {}
        elif action == "update":
            if bm_id is None or int(d["id"]) != bm_id:
                raise Violation("diff updates big_map %s but storage held %s" % (d["id"], bm_id), case, "diff-id")
            base = dict(chain)
        else:
            raise Violation("unexpected diff action %s" % action, case, "diff-action")
        if int(d["id"]) != ptr:
            raise Violation("storage points to big_map %d but the diff is for %s" % (ptr, d["id"]), case, "diff-ptr")
        final = _apply_updates(case, d, kt, keys, VT, V, base)
        if final != {i: V(n) for i, n in m.items()}:
            raise Violation("lazy diff applied to the on-chain content gives %s, model final dict %s (on-chain %s, "
                            "action %s, ops %s, updates %s)" % (final, m, base, action, ops, d["diff"]["updates"]), case,
                            "diff-final:" + action)
        # commit to the fake chain for the next call
        chain, model, bm_id = dict(m), dict(m), ptr
        node.big_maps[ptr] = {key_hash(kt, keys[i]): vm(v) for i, v in chain.items()}
    return nontrivial


def _apply_updates(case, d, kt, keys, VT, V, base):
    """the lazy diff entry `d` applied as a mapping to `base` (key index -> generated integer); key hashes are checked on the way"""
    seen = {}
    for u in d["diff"]["updates"]:
        try:
            k = rv.from_micheline(kt, u["key"])
        except rv.Malformed as e:
            raise Violation("diff key %s malformed: %s" % (u["key"], e), case, "diff-key-malformed")
        if k not in keys:
            raise Violation("diff mentions a key never used: %s" % u["key"], case, "diff-alien-key")
        i = keys.index(k)
        want_h = key_hash(kt, k)
        if u.get("key_hash") != want_h:
            raise Violation("key_hash of %s is %s, Tezos script-expr hash of the packed key is %s" % (
                u["key"], u.get("key_hash"), want_h), case, "key-hash")
        val = ("v", rv.from_micheline(VT, u["value"])) if u.get("value") is not None else None
        if i in seen and seen[i] != val:
            raise Violation("diff has contradicting entries for key %s: %s then %s" % (u["key"], seen[i], val), case,
                            "diff-contradiction")
        seen[i] = val
    final = {i: V(n) for i, n in base.items()}
    for i, val in seen.items():
        if val is None:
            final.pop(i, None)
        else:
            final[i] = val[1]
    return final


def _obs_kind(ops, j):
    obs = [o for o in ops if o["op"] != "UPDATE"]
    return obs[j]["op"] if j < len(obs) else "count"



# ---------------------------------------------------------------------------------------------------------------------------
# two big maps in one storage, copies of the structure that holds them

P = lambda name, *a: {"prim": name, "args": list(a)} if a else {"prim": name}  # noqa: E731
COPY_OPS = ("COPYGET", "COPYMEM", "USECOPY", "DUPSELF", "OPTCOPY")


def build_code2(kt, ops, keys, vname):
    VT = VTS[vname]
    optv = rv.T("option", VT)
    log_t = rv.T("or", optv, rv.T("bool"))
    bm_t = rv.T("big_map", kt, VT)
    tail3 = [P("DIG", {"int": "3"}), P("SWAP"), P("CONS"), P("DUG", {"int": "2"})]          # obs : M : other : log
    tail2 = [P("DIG", {"int": "2"}), P("SWAP"), P("CONS"), P("SWAP")]                        # obs : X : log
    code = [P("CDR"), P("UNPAIR"), P("DIP", [P("UNPAIR")])]                                   # A : B : log
    for op in ops:
        k = interp.push(kt, rv.to_micheline(kt, keys[op.get("key", 0)]))
        val = op.get("val")
        ov = interp.push(optv, {"prim": "None"} if val is None else {"prim": "Some", "args": [rv.to_micheline(VT, val_of(vname, val))]})
        o = op["op"]
        if o == "UPDATE":
            c = [ov, k, P("UPDATE")]
        elif o == "GET":
            c = [P("DUP"), k, P("GET"), P("LEFT", rv.T("bool"))] + tail3
        elif o == "MEM":
            c = [P("DUP"), k, P("MEM"), P("RIGHT", optv)] + tail3
        elif o == "GET_AND_UPDATE":
            c = [ov, k, P("GET_AND_UPDATE"), P("LEFT", rv.T("bool"))] + tail3
        elif o == "COPYGET":    # read through a copy of the pair that holds both maps
            c = [P("PAIR"), P("DUP"), P("CAR"), k, P("GET"), P("LEFT", rv.T("bool"))] + tail2 + [P("UNPAIR")]
        elif o == "COPYMEM":
            c = [P("PAIR"), P("DUP"), P("CAR"), k, P("MEM"), P("RIGHT", optv)] + tail2 + [P("UNPAIR")]
        elif o == "USECOPY":    # go on with the copy taken out of a duplicated pair
            c = [P("PAIR"), P("DUP"), P("CAR"), P("SWAP"), P("CDR"), P("SWAP")]
        elif o == "DUPSELF":
            c = [P("DUP"), P("DIP", [P("DROP")])]
        elif o == "OPTCOPY":    # go on with the copy taken out of a duplicated option
            c = [P("SOME"), P("DUP"), P("IF_NONE", [interp.push(rv.T("string"), {"string": "none"}), P("FAILWITH")], []), P("SWAP"), P("DROP")]
        else:
            raise ValueError(o)
        code += c if op["map"] == 0 else [P("SWAP")] + c + [P("SWAP")]
    code += [P("DIP", [P("PAIR")]), P("PAIR"), P("NIL", rv.T("operation")), P("PAIR")]
    storage_t = rv.T("pair", bm_t, rv.T("pair", bm_t, rv.T("list", log_t)))
    return [P("parameter", rv.T("unit")), P("storage", storage_t), P("code", code)], log_t


def oracle2(case):
    from pytezos.michelson.repl import Interpreter
    kt, vname = case["kt"], case["vt"]
    VT = VTS[vname]
    V = lambda n: val_of(vname, n)  # noqa: E731
    vm = lambda n: rv.to_micheline(VT, val_of(vname, n))  # noqa: E731
    keys = [rv.from_micheline(kt, k) for k in case["keys"]]
    node = fake_node.FakeNode()
    chain, ids, model = [{}, {}], [None, None], [{}, {}]
    for j, mp in enumerate(case["maps"]):
        content = {int(i): v for i, v in mp["content"].items()}
        model[j] = dict(content)
        if mp["on_chain"]:
            ids[j] = 42 + j
            chain[j] = dict(content)
            node.big_maps[ids[j]] = {key_hash(kt, keys[i]): vm(v) for i, v in content.items()}
    nontrivial = False
    for call_no, ops in enumerate(case["calls"]):
        script, log_t = build_code2(kt, ops, keys, vname)
        st_parts = []
        for j in (0, 1):
            if ids[j] is not None:
                st_parts.append({"int": str(ids[j])})
            else:
                ks = rv.sort_values(kt, [keys[i] for i in model[j]])
                st_parts.append([{"prim": "Elt", "args": [rv.to_micheline(kt, k), vm(model[j][keys.index(k)])]} for k in ks])
        storage = {"prim": "Pair", "args": [st_parts[0], {"prim": "Pair", "args": [st_parts[1], []]}]}
        expected, m = [], [dict(model[0]), dict(model[1])]
        removed_on_chain = [set(), set()]
        asked = [set(), set()]
        for op in ops:
            j, i, o = op["map"], op.get("key", 0), op["op"]
            if o in ("GET", "COPYGET", "GET_AND_UPDATE"):
                expected.append(("Left", ("Some", V(m[j][i])) if i in m[j] else None))
            elif o in ("MEM", "COPYMEM"):
                expected.append(("Right", i in m[j]))
            if o in ("GET", "MEM", "COPYGET", "COPYMEM", "GET_AND_UPDATE", "UPDATE"):
                if ids[0] is not None and ids[1] is not None and i in asked[1 - j]:
                    nontrivial = True     # the same key asked from two on-chain-backed maps in one execution
                asked[j].add(i)
            if o in ("UPDATE", "GET_AND_UPDATE"):
                if op.get("val") is None:
                    if i in chain[j] and i in m[j]:
                        removed_on_chain[j].add(i)
                    m[j].pop(i, None)
                else:
                    m[j][i] = op["val"]
            if o in COPY_OPS and removed_on_chain[j]:
                nontrivial = True         # a copy taken after a key that exists on chain was removed
        try:
            res = Interpreter.run_code(parameter={"prim": "Unit"}, storage=storage, script=script,
                                       shell=fake_node.shell(node), output_mode="optimized")
        except Exception as e:
            raise Violation("run_code raised %r (call %d, ops %s)" % (e, call_no, ops), case, "two:run_code-raise")
        operations, new_storage, lazy_diff, stdout, err = res
        if err is not None:
            raise Violation("contract failed: %r (call %d, key type %s, ops %s)" % (err.args, call_no, kt, ops), case,
                            "two:contract-failed:" + str(err.args[0]))
        try:
            a = new_storage["args"]
            if len(a) == 2:
                a = [a[0]] + a[1]["args"]
            ptrs = [int(a[0]["int"]), int(a[1]["int"])]
            log = list(reversed(rv.from_micheline(rv.T("list", log_t), a[2])))
        except Exception as e:
            raise Violation("unexpected storage shape %s (%r)" % (new_storage, e), case, "two:storage-shape")
        if log != expected:
            n = next((n for n, (x, y) in enumerate(zip(log, expected)) if x != y), min(len(log), len(expected)))
            obs = [o for o in ops if o["op"] in ("GET", "MEM", "COPYGET", "COPYMEM", "GET_AND_UPDATE")]
            raise Violation("observation #%d (%s) differs: got %s, layered-dict model %s; call %d ops %s; on-chain contents %s" % (
                n, obs[n] if n < len(obs) else None, log[n] if n < len(log) else None, expected[n] if n < len(expected) else None,
                call_no, ops, chain), case, "two:observation:" + (obs[n]["op"] if n < len(obs) else "count"))
        if ptrs[0] == ptrs[1]:
            raise Violation("two different big maps are stored under the same identifier %d" % ptrs[0], case, "two:same-id")
        diffs = [d for d in lazy_diff if d.get("kind") == "big_map"]
        for j in (0, 1):
            mine = [d for d in diffs if int(d["id"]) == ptrs[j]]
            if len(mine) != 1:
                raise Violation("expected one lazy diff for big_map %d (slot %d), got %s" % (ptrs[j], j, lazy_diff), case, "two:diff-count")
            d = mine[0]
            action = d["diff"]["action"]
            if action == "alloc":
                base = {}
            elif action == "update":
                if ids[j] is None or ptrs[j] != ids[j]:
                    raise Violation("diff updates big_map %s but slot %d held %s" % (d["id"], j, ids[j]), case, "two:diff-id")
                base = dict(chain[j])
            else:
                raise Violation("unexpected diff action %s" % action, case, "two:diff-action")
            final = _apply_updates(case, d, kt, keys, VT, V, base)
            if final != {i: V(n) for i, n in m[j].items()}:
                raise Violation("slot %d: lazy diff applied to the on-chain content gives %s, model final dict %s (on-chain %s, action %s, "
                                "ops %s, updates %s)" % (j, final, m[j], base, action, ops, d["diff"]["updates"]), case,
                                "two:diff-final:" + action)
        if len(diffs) != 2:
            raise Violation("lazy diff mentions big maps other than the two stored ones: %s" % lazy_diff, case, "two:diff-extra")
        for j in (0, 1):
            chain[j], model[j], ids[j] = dict(m[j]), dict(m[j]), ptrs[j]
            node.big_maps[ptrs[j]] = {key_hash(kt, keys[i]): vm(v) for i, v in chain[j].items()}
    return nontrivial


@st.composite
def cases2(draw, max_ops):
    kt = draw(st.sampled_from(KEY_TYPES))
    base = draw(gt.values(kt))
    ks = [base]
    for _ in range(draw(st.integers(1, 3))):
        ks.append(draw(gt.near(kt, draw(st.sampled_from(ks)))))
    keys = rv.sort_values(kt, gt._consistent(kt, ks))
    n = len(keys)
    maps = []
    for j in (0, 1):
        maps.append({"on_chain": draw(st.integers(0, 3)) != 0,
                     "content": {str(i): draw(st.integers(50 * j, 50 * j + 49)) for i in range(n) if draw(st.integers(0, 2)) != 0}})

    def ops():
        out = []
        for _ in range(draw(st.integers(2, max_ops))):
            kind = draw(st.sampled_from(["UPDATE", "UPDATE", "GET", "GET", "MEM", "GET_AND_UPDATE", "COPYGET", "COPYGET", "COPYMEM",
                                         "USECOPY", "DUPSELF", "OPTCOPY"]))
            op = {"op": kind, "map": draw(st.integers(0, 1))}
            if kind not in ("USECOPY", "DUPSELF", "OPTCOPY"):
                op["key"] = draw(st.integers(0, n - 1))
            if kind in ("UPDATE", "GET_AND_UPDATE"):
                op["val"] = draw(st.sampled_from([None, None]) | st.integers(100, 199))
            out.append(op)
        return out
    return {"mode": "two", "kt": kt, "keys": [rv.to_micheline(kt, k) for k in keys], "maps": maps,
            "calls": [ops() for _ in range(draw(st.sampled_from([1, 1, 2])))], "vt": draw(st.sampled_from(["nat", "nat", "string", "option"]))}


def _prop2(case, stats):
    nt = oracle2(case)
    stats.case(case, nt, "two:%s:%s" % (case["kt"]["prim"], "".join("c" if mp["on_chain"] else "l" for mp in case["maps"])),
               sample={"key_type": case["kt"], "maps": case["maps"], "calls": case["calls"]})


def replay(case):
    (oracle2 if case.get("mode") == "two" else oracle)(case)


@st.composite
def cases(draw, max_ops):
    kt = draw(st.sampled_from(KEY_TYPES))
    base = draw(gt.values(kt))
    ks = [base]
    for _ in range(draw(st.integers(1, 4))):
        ks.append(draw(gt.near(kt, draw(st.sampled_from(ks)))))
    keys = rv.sort_values(kt, gt._consistent(kt, ks))
    n = len(keys)
    on_chain = draw(st.booleans())
    content = {str(i): draw(st.integers(0, 99)) for i in range(n) if draw(st.booleans())}

    def ops():
        out = []
        for _ in range(draw(st.integers(1, max_ops))):
            kind = draw(st.sampled_from(["UPDATE", "UPDATE", "GET", "MEM", "GET_AND_UPDATE"]))
            op = {"op": kind, "key": draw(st.integers(0, n - 1))}
            if kind in ("UPDATE", "GET_AND_UPDATE"):
                op["val"] = draw(st.one_of(st.none(), st.integers(100, 199)))
            out.append(op)
        return out
    calls = [ops() for _ in range(draw(st.sampled_from([1, 1, 2, 3])))]
    return {"kt": kt, "keys": [rv.to_micheline(kt, k) for k in keys], "on_chain": content if on_chain else None,
            "literal": {} if on_chain else content, "calls": calls, "vt": draw(st.sampled_from(["nat", "nat", "string", "list", "option"])),
            "where": "parameter" if on_chain and draw(st.integers(0, 3)) == 0 else "storage"}


def _prop(case, stats):
    nt = oracle(case)
    stats.case(case, nt, "%s:%s:calls=%d" % (case["kt"]["prim"], "on-chain" if case["on_chain"] is not None else "literal",
                                            len(case["calls"])),
               sample={"key_type": case["kt"], "on_chain": case["on_chain"], "literal": case["literal"], "calls": case["calls"]})


def run(h):
    h.run_given(lambda: cases(12 if h.quick else 30), _prop, h.n(120, 3000), shards=8 if h.quick else 16)
    h.run_given(lambda: cases2(10 if h.quick else 24), _prop2, h.n(100, 3000), shards=8 if h.quick else 16, name="two-maps")
