"""C04 — PACK produces Tezos bytes and UNPACK inverts it for every packable type."""
from hypothesis import strategies as st

from vlib import gen_micheline as gm
from vlib import gen_types as gt
from vlib import interp
from vlib import ref_micheline as rm
from vlib import ref_values as rv
from vlib.harness import Violation

PID = "C04"
RULE = ("packable types (all leaves incl. key_hash/key/address/signature/timestamp/chain_id/bls, option/or/pair/combs "
        "of every length 2..7/list/set/map/lambda; depth <=2 quick, <=3 thorough) x boundary-biased values; byte strings "
        "= valid packed data mutated (truncation, extension, bit flip, byte set, length-prefix edit, Zarith padding, "
        "insert/delete, prefix byte). Oracle: value.pack() and the PACK instruction == reference PACK (0x05 + optimized "
        "binary Micheline, combs >=4 as sequences) byte for byte; T.unpack / UNPACK T return an equal value; for a "
        "mutated string the strict reference decoder rejects, UNPACK T returns None and T.unpack raises. Non-trivial: "
        "value contains a type with an optimized form or a comb >= 3; mutated string rejected for a reason other than "
        "its first byte. Distinct = distinct (type, value) / byte string.")

LEAVES = gt.COMPARABLE_LEAVES + gt.OTHER_LEAVES
OPTIMIZED = {"address", "key", "key_hash", "signature", "timestamp", "chain_id", "bls12_381_fr", "bls12_381_g1",
             "bls12_381_g2"}


def _cls(t):
    from pytezos.michelson.types.base import MichelsonType
    import pytezos.michelson.types  # noqa: F401
    return MichelsonType.match(t)


def _ts(t):
    return t["prim"] if not rv.targs(t) else "(%s %s)" % (t["prim"], " ".join(_ts(a) for a in rv.targs(t)))


def _blame(t, v=None):
    if rv.contains_type(t, {"key_hash"}):
        return "key_hash"
    for p in ("timestamp", "address", "key", "signature", "chain_id", "bls12_381_fr", "lambda", "map", "set"):
        if rv.contains_type(t, {p}):
            return p
    n = max([len(rv.comb_types(x)) for x in _subtypes(t) if x["prim"] == "pair"], default=0)
    return "comb%d" % n if n else t["prim"]


def _subtypes(t):
    yield t
    for a in rv.targs(t):
        yield from _subtypes(a)


def check_value(case):
    t = case["t"]
    v = rv.from_micheline(t, case["v"])
    readable = rv.to_micheline(t, v)
    want = rv.pack(t, v)
    cls = _cls(t)
    try:
        obj = cls.from_micheline_value(readable)
        got = obj.pack()
    except Exception as e:
        raise Violation("pack() raised %r for %s : %s" % (e, readable, _ts(t)), case, "pack-raise:" + _blame(t))
    if got != want:
        raise Violation("pack() of %s : %s = %s, Tezos PACK = %s" % (readable, _ts(t), got.hex(), want.hex()), case,
                        "pack-bytes:" + _blame(t))
    if rv.is_pushable(t):
        stk, out, err = interp.run([interp.push(t, readable), {"prim": "PACK"}])
        if err is not None:
            raise Violation("PACK instruction failed on %s: %r" % (_ts(t), err.args), case, "PACK-raise:" + _blame(t))
        ty, pv = interp.read_item(stk.items[0])
        if ty != {"prim": "bytes"} or pv != {"bytes": want.hex()}:
            raise Violation("PACK instruction gives %r, Tezos PACK = %s" % (pv, want.hex()), case, "PACK-bytes:" + _blame(t))
    # UNPACK
    try:
        back = cls.unpack(want)
        bm = back.to_micheline_value(mode="optimized")
    except Exception as e:
        raise Violation("T.unpack(pack(v)) raised %r for %s : %s (bytes %s)" % (e, readable, _ts(t), want.hex()), case,
                        "unpack-raise:" + _blame(t))
    bv = interp.parse_output(t, bm, "unpacked value")
    if bv != v:
        raise Violation("T.unpack(pack(v)) = %s, v = %s" % (bm, readable), case,
                        "unpack-value:" + _blame(t))
    res = _unpack_instr(t, want, case)
    if res is NONE:
        raise Violation("UNPACK %s returned None on the canonical packing %s of %s" % (_ts(t), want.hex(), readable), case,
                        "UNPACK-none:" + _blame(t))
    if res != v:
        raise Violation("UNPACK %s of pack(v) = %r, v = %s" % (_ts(t), res, readable), case, "UNPACK-value:" + _blame(t))
    return v


NONE = "<UNPACK returned None>"


def _unpack_instr(t, data, case):
    stk, out, err = interp.run([interp.push(rv.T("bytes"), {"bytes": data.hex()}), {"prim": "UNPACK", "args": [t]}])
    if err is not None:
        raise Violation("UNPACK %s failed (must return an option) on %s: %r" % (_ts(t), data.hex(), err.args), case,
                        "UNPACK-raise")
    ty, val = interp.read_item(stk.items[0])
    if ty != rv.T("option", t):
        raise Violation("UNPACK %s left a value of type %r" % (_ts(t), ty), case, "UNPACK-type")
    r = interp.parse_output(rv.T("option", t), val, "UNPACK result")
    return NONE if r is None else r[1]


def check_bytes(case):
    t = case["t"]
    data = bytes.fromhex(case["data"])
    reason = None
    if not data or data[0] != 5:
        reason = "prefix"
    else:
        try:
            rm.decode(data[1:])
        except rm.DecodeError as de:
            reason = de.reason
    if reason == "prefix" or reason in rm.STRICT_REASONS:
        res = _unpack_instr(t, data, case)
        if res is not NONE:
            raise Violation("UNPACK %s accepted %s, which is not valid Tezos binary Micheline (%s) -> %r"
                            % (_ts(t), data.hex(), reason, res), case, "UNPACK-accepts-invalid:" + reason)
        try:
            _cls(t).unpack(data)
            raised = False
        except Exception:
            raised = True
        if not raised:
            raise Violation("T.unpack accepted %s (%s)" % (data.hex(), reason), case, "unpack-accepts-invalid:" + reason)
    else:
        _unpack_instr(t, data, case)  # must not crash: returns Some or None
    return reason


def oracle(case):
    if case["mode"] == "value":
        return check_value(case)
    return check_bytes(case)


def replay(case):
    oracle(case)


def _types(depth):
    return gt.types(depth, leaves=LEAVES, collections=True, lambdas=True)


@st.composite
def value_cases(draw, depth):
    t = draw(_types(depth))
    v = draw(gt.values(t))
    return {"mode": "value", "t": t, "v": rv.to_micheline(t, v)}


@st.composite
def byte_cases(draw, depth):
    t = draw(_types(min(depth, 2)))
    v = draw(gt.values(t))
    data = rv.pack(t, v)
    kind, mutated = draw(gm.mutate_bytes(data))
    return {"mode": "bytes", "t": t, "data": mutated.hex(), "mut": kind}


def _prop(case, stats):
    res = oracle(case)
    t = case["t"]
    if case["mode"] == "value":
        nt = rv.contains_type(t, OPTIMIZED) or any(x["prim"] == "pair" and len(rv.comb_types(x)) >= 3 for x in _subtypes(t))
        stats.case(case, nt, "value:" + _blame(t), sample={"type": _ts(t), "value": case["v"]})
    else:
        d = case["data"]
        nt = res is not None and res != "prefix" and not (res == "unknown-tag" and len(d) >= 4 and int(d[2:4], 16) > 10)
        stats.case(case, nt, "bytes:%s" % (res or "ref-accepts"), sample={"type": _ts(t), "data": d[:80], "mut": case["mut"]})


def run(h):
    depth = 2 if h.quick else 3
    sh = 8 if h.quick else 16
    h.run_given(lambda: value_cases(depth), _prop, h.n(250, 8000), shards=sh, name="values")
    h.run_given(lambda: byte_cases(depth), _prop, h.n(400, 15000), shards=sh, name="bytes")
    if not h.quick:
        from checks import c04_fuzz
        c04_fuzz.campaign(h)
