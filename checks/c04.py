"""C04 — PACK produces Tezos bytes and UNPACK inverts it for every packable type."""
from hypothesis import strategies as st

from vlib import gen_micheline as gm
from vlib import gen_types as gt
from vlib import interp
from vlib import ref_micheline as rm
from vlib import ref_values as rv
from vlib.harness import Violation

PID = "C04"
RULE = ("packable types (all leaves incl. key_hash/key/address/signature/timestamp/chain_id/bls, option/or/pair/combs "
        "of every length 2..7/list/set/map/lambda (incl. lambdas over tickets, operations, big maps, contracts), a third of the composite "
        "types carrying field / type annotations on inner nodes; depth <=2 quick, <=3 thorough) x boundary-biased values; byte strings "
        "= valid packed data mutated (truncation, extension, bit flip, byte set, length-prefix edit, Zarith padding, "
        "insert/delete, prefix byte). Oracle: value.pack() and the PACK instruction == reference PACK (0x05 + optimized "
        "binary Micheline, combs >=4 as sequences) byte for byte; T.unpack / UNPACK T return an equal value; for a "
        "mutated string the strict reference decoder rejects, UNPACK T returns None and T.unpack raises; cross-type cases: a value "
        "packed at one leaf type (bytes/key_hash/address/chain_id, int/nat/mutez/timestamp; raw bytes of lengths 0..27 with "
        "address-like heads) is unpacked at another leaf type of the same Micheline kind: None when a leaf is not a valid value "
        "of the target type (wrong length, tag, sign, range), the same bytes back when it is. Non-trivial: "
        "value contains a type with an optimized form or a comb >= 3; mutated string rejected for a reason other than "
        "its first byte. Distinct = distinct (type, value) / byte string.")

LEAVES = gt.COMPARABLE_LEAVES + gt.OTHER_LEAVES
OPTIMIZED = {"address", "key", "key_hash", "signature", "timestamp", "chain_id", "bls12_381_fr", "bls12_381_g1",
             "bls12_381_g2"}


def _cls(t):
    from pytezos.michelson.types.base import MichelsonType
    import pytezos.michelson.types  # noqa: F401
    return MichelsonType.match(t)


def _ts(t):
    return t["prim"] if not rv.targs(t) else "(%s %s)" % (t["prim"], " ".join(_ts(a) for a in rv.targs(t)))


def _blame(t, v=None):
    if rv.contains_type(t, {"key_hash"}):
        return "key_hash"
    for p in ("timestamp", "address", "key", "signature", "chain_id", "bls12_381_fr", "lambda", "map", "set"):
        if rv.contains_type(t, {p}):
            return p
    n = max([len(rv.comb_types(x)) for x in _subtypes(t) if x["prim"] == "pair"], default=0)
    return "comb%d" % n if n else t["prim"]


def _subtypes(t):
    yield t
    for a in rv.targs(t):
        yield from _subtypes(a)


def check_value(case):
    t = case["t"]
    v = rv.from_micheline(t, case["v"])
    readable = rv.to_micheline(t, v)
    want = rv.pack(t, v)
    ta = case.get("ta") or t   # the same type carrying field / type annotations: Tezos lays values out by type structure only
    cls = _cls(ta)
    try:
        obj = cls.from_micheline_value(readable)
        if case.get("legacy_first"):
            # the big_map key-hash layout is asked first on the same object; the canonical layout afterwards must not change
            leg = obj.pack(legacy=True)
            if leg != rv.pack(t, v, legacy=True):
                raise Violation("pack(legacy=True) of %s : %s = %s, reference %s" % (readable, _ts(t), leg.hex(),
                                                                                  rv.pack(t, v, legacy=True).hex()), case,
                                "pack-legacy-bytes:" + _blame(t))
        got = obj.pack()
        if obj.pack() != got:
            raise Violation("pack() of one object gives two different results", case, "pack-unstable")
    except Violation:
        raise
    except Exception as e:
        raise Violation("pack() raised %r for %s : %s" % (e, readable, _ts(t)), case, "pack-raise:" + _blame(t))
    if got != want:
        raise Violation("pack() of %s : %s = %s, Tezos PACK = %s" % (readable, _ts(t), got.hex(), want.hex()), case,
                        "pack-bytes:" + _blame(t))
    if rv.is_pushable(t):
        stk, out, err = interp.run([interp.push(ta, readable), {"prim": "PACK"}])
        if err is not None:
            raise Violation("PACK instruction failed on %s: %r" % (_ts(t), err.args), case, "PACK-raise:" + _blame(t))
        ty, pv = interp.read_item(stk.items[0])
        if ty != {"prim": "bytes"} or pv != {"bytes": want.hex()}:
            raise Violation("PACK instruction gives %r, Tezos PACK = %s" % (pv, want.hex()), case, "PACK-bytes:" + _blame(t))
    # UNPACK
    try:
        back = cls.unpack(want)
        bm = back.to_micheline_value(mode="optimized")
    except Exception as e:
        raise Violation("T.unpack(pack(v)) raised %r for %s : %s (bytes %s)" % (e, readable, _ts(t), want.hex()), case,
                        "unpack-raise:" + _blame(t))
    bv = interp.parse_output(t, bm, "unpacked value")
    if bv != v:
        raise Violation("T.unpack(pack(v)) = %s, v = %s" % (bm, readable), case,
                        "unpack-value:" + _blame(t))
    res = _unpack_instr(t, want, case, ta)
    if res is NONE:
        raise Violation("UNPACK %s returned None on the canonical packing %s of %s" % (_ts(t), want.hex(), readable), case,
                        "UNPACK-none:" + _blame(t))
    if res != v:
        raise Violation("UNPACK %s of pack(v) = %r, v = %s" % (_ts(t), res, readable), case, "UNPACK-value:" + _blame(t))
    return v


NONE = "<UNPACK returned None>"


def _unpack_instr(t, data, case, ta=None):
    stk, out, err = interp.run([interp.push(rv.T("bytes"), {"bytes": data.hex()}), {"prim": "UNPACK", "args": [ta or t]}])
    if err is not None:
        raise Violation("UNPACK %s failed (must return an option) on %s: %r" % (_ts(t), data.hex(), err.args), case,
                        "UNPACK-raise")
    ty, val = interp.read_item(stk.items[0])
    if ty != rv.T("option", t):
        raise Violation("UNPACK %s left a value of type %r" % (_ts(t), ty), case, "UNPACK-type")
    r = interp.parse_output(rv.T("option", t), val, "UNPACK result")
    return NONE if r is None else r[1]


def check_bytes(case):
    t = case["t"]
    data = bytes.fromhex(case["data"])
    reason = None
    if not data or data[0] != 5:
        reason = "prefix"
    else:
        try:
            rm.decode(data[1:])
        except rm.DecodeError as de:
            reason = de.reason
    if reason == "prefix" or reason in rm.STRICT_REASONS:
        res = _unpack_instr(t, data, case)
        if res is not NONE:
            raise Violation("UNPACK %s accepted %s, which is not valid Tezos binary Micheline (%s) -> %r"
                            % (_ts(t), data.hex(), reason, res), case, "UNPACK-accepts-invalid:" + reason)
        try:
            _cls(t).unpack(data)
            raised = False
        except Exception:
            raised = True
        if not raised:
            raise Violation("T.unpack accepted %s (%s)" % (data.hex(), reason), case, "unpack-accepts-invalid:" + reason)
    else:
        _unpack_instr(t, data, case)  # must not crash: returns Some or None
    return reason


BYTES_KIND = ["bytes", "key_hash", "address", "chain_id"]
INT_KIND = ["int", "nat", "mutez", "timestamp"]


def leaf_verdict(p, m):
    """Is the optimized Micheline leaf m (an int or bytes literal) a value of leaf type p? 'valid' / 'invalid' / 'unknown'
    (unknown: Tezos' exact rule is not asserted here, e.g. deprecated address tags or exotic entrypoint suffixes)."""
    if p in INT_KIND:
        if "int" not in m:
            return "invalid" if ("bytes" in m or isinstance(m, list) or "prim" in m) and p != "timestamp" else "unknown"
        n = int(m["int"])
        if p == "nat":
            return "valid" if n >= 0 else "invalid"
        if p == "mutez":
            return "valid" if 0 <= n < 2 ** 63 else "invalid"
        return "valid"
    if "bytes" not in m:
        return "unknown"  # a string form: checked elsewhere
    b = bytes.fromhex(m["bytes"])
    if p == "bytes":
        return "valid"
    if p == "key_hash":
        return "valid" if len(b) == 21 and b[0] <= 3 else "invalid"
    if p == "chain_id":
        return "valid" if len(b) == 4 else "invalid"
    if p == "address":
        if len(b) < 22 or b[0] > 4 or (b[0] == 0 and b[1] > 3):
            return "invalid"
        ok_head = (b[0] == 0) or (b[0] in (1, 3) and b[21] == 0)
        suffix = b[22:]
        ok_tail = not suffix or (len(suffix) <= 31 and suffix.isalnum() and suffix != b"default")
        return "valid" if ok_head and ok_tail else "unknown"
    return "unknown"


def check_cross(case):
    """PACK at one leaf type, UNPACK at another leaf type of the same Micheline kind (inside the same wrapper)."""
    ta, tb = case["ta"], case["tb"]
    v = rv.from_micheline(ta, case["v"])
    data = rv.pack(ta, v)
    la, lb = case["leaf_a"], case["leaf_b"]
    leaves = []

    def walk(t, m):  # collect the optimized leaves standing where the substituted leaf type stands
        p, a = t["prim"], rv.targs(t)
        if p == "option":
            if isinstance(m, dict) and m.get("prim") == "Some":
                walk(a[0], m["args"][0])
        elif p == "pair":
            walk(a[0], m["args"][0])
            walk(a[1], m["args"][1])
        elif p == "list":
            for x in m:
                walk(a[0], x)
        elif p == la:
            leaves.append(m)
    walk(ta, rv.to_micheline(ta, v, "optimized"))
    verdicts = [leaf_verdict(lb, m) for m in leaves]
    res = _unpack_instr(tb, data, case)
    what = "PACK at %s then UNPACK at %s of %s (bytes %s)" % (_ts(ta), _ts(tb), case["v"], data.hex())
    if "invalid" in verdicts:
        if res is not NONE:
            raise Violation("%s returned Some %r; Tezos returns None (a %s leaf is not a valid %s)" % (what, res, la, lb), case,
                            "cross-accepts-invalid:%s->%s" % (la, lb))
        return "none"
    if all(x == "valid" for x in verdicts):
        if res is NONE:
            raise Violation("%s returned None; every leaf is a valid %s" % (what, lb), case, "cross-rejects-valid:%s->%s" % (la, lb))
        back = rv.pack(tb, res)
        if back != data:
            raise Violation("%s returned a value that packs to %s" % (what, back.hex()), case, "cross-value:%s->%s" % (la, lb))
        return "some"
    return "unknown"


def oracle(case):
    if case["mode"] == "value":
        return check_value(case)
    if case["mode"] == "cross":
        return check_cross(case)
    return check_bytes(case)


def replay(case):
    oracle(case)


def _types(depth):
    return gt.types(depth, leaves=LEAVES, collections=True, lambdas=True)


@st.composite
def value_cases(draw, depth):
    t = draw(_types(depth))
    v = draw(gt.values(t))
    case = {"mode": "value", "t": t, "v": rv.to_micheline(t, v), "legacy_first": draw(st.integers(0, 2)) == 0}
    if draw(st.integers(0, 2)) == 0 and rv.targs(t):
        case["ta"] = draw(gt.decorate(t))
    return case


@st.composite
def byte_cases(draw, depth):
    t = draw(_types(min(depth, 2)))
    v = draw(gt.values(t))
    data = rv.pack(t, v)
    kind, mutated = draw(gm.mutate_bytes(data))
    return {"mode": "bytes", "t": t, "data": mutated.hex(), "mut": kind}


@st.composite
def cross_cases(draw):
    kind = draw(st.sampled_from([BYTES_KIND, BYTES_KIND, INT_KIND]))
    la = draw(st.sampled_from(kind))
    lb = draw(st.sampled_from([x for x in kind if x != la]))
    wrap = draw(st.sampled_from(["leaf", "leaf", "option", "pair", "list"]))

    def w(leaf):
        t = rv.T(leaf)
        return {"leaf": t, "option": rv.T("option", t), "pair": rv.T("pair", rv.T("unit"), t), "list": rv.T("list", t)}[wrap]
    ta = w(la)
    if la == "bytes":  # raw bytes shaped like the fixed-length forms
        n = draw(st.sampled_from([0, 3, 4, 5, 20, 21, 21, 22, 22, 23, 27]))
        head = bytes([draw(st.integers(0, 5)), draw(st.integers(0, 5))])
        body = draw(st.binary(min_size=n, max_size=n))
        tail = draw(st.sampled_from([b"", b"\x00", b"abc", b"default"]))
        leaf_v = (head + body)[:n] if draw(st.booleans()) else (head + body[2:-1] + b"\x00")[:n] + tail
        v = {"leaf": leaf_v, "option": ("Some", leaf_v), "pair": ((), leaf_v), "list": [leaf_v]}[wrap]
    else:
        v = draw(gt.values(ta))
    return {"mode": "cross", "ta": ta, "tb": w(lb), "leaf_a": la, "leaf_b": lb, "v": rv.to_micheline(ta, v)}


def _prop_cross(case, stats):
    res = oracle(case)
    stats.case(case, res in ("none", "some"), "cross:%s->%s:%s" % (case["leaf_a"], case["leaf_b"], res),
               sample={"from": _ts(case["ta"]), "to": _ts(case["tb"]), "value": case["v"], "result": res})


def _prop(case, stats):
    res = oracle(case)
    t = case["t"]
    if case["mode"] == "value":
        nt = rv.contains_type(t, OPTIMIZED) or any(x["prim"] == "pair" and len(rv.comb_types(x)) >= 3 for x in _subtypes(t))
        stats.case(case, nt, "value:" + _blame(t), sample={"type": _ts(t), "value": case["v"]})
        if case.get("ta"):
            stats.label("annotated-type")
    else:
        d = case["data"]
        nt = res is not None and res != "prefix" and not (res == "unknown-tag" and len(d) >= 4 and int(d[2:4], 16) > 10)
        stats.case(case, nt, "bytes:%s" % (res or "ref-accepts"), sample={"type": _ts(t), "data": d[:80], "mut": case["mut"]})


def run(h):
    depth = 2 if h.quick else 3
    sh = 8 if h.quick else 16
    h.run_given(lambda: value_cases(depth), _prop, h.n(250, 8000), shards=sh, name="values")
    h.run_given(lambda: byte_cases(depth), _prop, h.n(400, 15000), shards=sh, name="bytes")
    h.run_given(cross_cases, _prop_cross, h.n(250, 8000), shards=sh, name="cross")
    if not h.quick:
        from checks import c04_fuzz
        c04_fuzz.campaign(h)
