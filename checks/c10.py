"""C10 — addresses, keys, key hashes, signatures and chain ids survive binary form."""
from hypothesis import strategies as st

from vlib import gen_types as gt
from vlib import ref_crypto as rc
from vlib import ref_values as rv
from vlib.harness import Violation

PID = "C10"
RULE = ("values of address/contract (tz1-tz4, KT1, sr1, txr1 over 20-byte hashes whose first byte is 0..3 or last byte 0 "
        "with probability >= 0.5; entrypoints 1..31 chars), key_hash, key (32/33/48-byte, four curves), signature "
        "(64/96 bytes under each applicable prefix), chain_id; alone and nested in pair/option/list. Oracle: optimized "
        "bytes == reference layout (tag, padding, lengths 21/22+/33/34/49/64/96/4); reading the optimized form back at "
        "the same type gives the same value (compared in bytes space); forge/unforge helper pairs are inverse; "
        "blind_unpack never returns an address/key of another kind and gives chain ids and signatures back as such (including "
        "those whose bytes are also well-formed packed data). Non-trivial: hash first byte <= 3 or last byte 0, "
        "or an entrypoint is present, or the kind is not tz1. Distinct = distinct (type, value).")

DOMAIN = ["address", "key_hash", "key", "signature", "chain_id"]


def _match(t):
    from pytezos.michelson.types.base import MichelsonType
    import pytezos.michelson.types  # noqa: F401
    return MichelsonType.match(t)


def oracle(case):
    t = case["t"]
    v = rv.from_micheline(t, case["v"])
    readable = rv.to_micheline(t, v, "readable")
    if case.get("sig_prefix"):
        readable = {"string": rv.sig_str(v, case["sig_prefix"])}
    want_opt = rv.to_micheline(t, v, "optimized")
    cls = _match(t)
    try:
        obj = cls.from_micheline_value(readable)
        opt = obj.to_micheline_value(mode="optimized")
    except Exception as e:
        raise Violation("cannot build/optimize %s value %s: %r" % (t["prim"], readable, e), case,
                        "optimize-raise:" + _kind(t, v))
    if t["prim"] in DOMAIN + ["tx_rollup_l2_address"] and opt != want_opt:
        raise Violation("optimized form of %s is %s, reference layout %s" % (readable, opt, want_opt), case,
                        "layout:" + _kind(t, v))
    try:
        back = cls.from_micheline_value(opt)
        opt2 = back.to_micheline_value(mode="optimized")
        rd2 = back.to_micheline_value(mode="readable")
    except Exception as e:
        raise Violation("optimized form %s of %s cannot be read back at type %s: %r" % (opt, readable, _ts(t), e), case,
                        "readback-raise:" + _kind(t, v))
    try:
        v2 = rv.from_micheline(t, rd2)
    except rv.Malformed as e:
        raise Violation("read-back value %s is malformed: %s" % (rd2, e), case, "readback-malformed:" + _kind(t, v))
    if v2 != v or opt2 != opt:
        raise Violation("optimized round trip changed the value: %s -> %s -> %s" % (readable, opt, rd2), case,
                        "roundtrip:" + _kind(t, v))
    if t["prim"] in DOMAIN + ["tx_rollup_l2_address"]:
        _helpers(t, v, readable, case)
    return v


def _helpers(t, v, readable, case):
    from pytezos.michelson import forge as F
    from pytezos.michelson.micheline import blind_unpack
    p = t["prim"]
    s = readable["string"]
    try:
        if p in ("address", "tx_rollup_l2_address"):
            base = s.split("%")[0]
            if F.unforge_address(F.forge_address(base)) != base:
                raise Violation("unforge_address(forge_address(%s)) = %s" % (base, F.unforge_address(F.forge_address(base))),
                                case, "helper:address")
            if not v[1] and F.forge_contract(base + "%default") != v[0]:
                raise Violation("forge_contract(%s%%default) = %s: the default entrypoint must not be spelled out"
                                % (base, F.forge_contract(base + "%default").hex()), case, "helper:default-entrypoint")
            got = F.unforge_contract(F.forge_contract(s))
            if rv.addr_val(got) != v:
                raise Violation("unforge_contract(forge_contract(%s)) = %s" % (s, got), case, "helper:contract")
            data = v[0] + v[1].encode()
        elif p == "key_hash":
            got = F.unforge_address(F.forge_address(s, tz_only=True))
            if got != s:
                raise Violation("unforge_address(forge_address(%s, tz_only=True)) = %s" % (s, got), case,
                                "helper:key_hash:" + _kind(t, v))
            data = v
        elif p == "key":
            got = F.unforge_public_key(F.forge_public_key(s))
            if got != s:
                raise Violation("unforge_public_key(forge_public_key(%s)) = %s" % (s, got), case, "helper:key")
            data = v
        else:
            # chain ids (4 bytes) and signatures (64 / 96 bytes): the untyped reader must give the value back as well, whatever
            # the bytes look like (e.g. a chain id 05 00 87 01 is also well-formed packed data)
            try:
                guess = blind_unpack(v)
            except Exception as e:
                raise Violation("blind_unpack raised %r on %s" % (e, v.hex()), case, "blind-raise")
            dec = rc.tz_decode(guess) if isinstance(guess, str) else None
            if dec is None or dec[1] != v:
                raise Violation("blind_unpack(%s) = %r, the bytes are the %s %s" % (v.hex(), guess, p, s), case, "blind-other-value:" + p)
            return
    except Violation:
        raise
    except Exception as e:
        raise Violation("forge/unforge helper raised %r on %s" % (e, s), case, "helper-raise:" + _kind(t, v))
    # blind_unpack: if it answers with an address / key hash / key string, it must be the encoded one.
    # An address followed by an entrypoint name has no fixed length and can be byte-identical to a public key, so
    # only the fixed-length forms (21-byte key hash, 22-byte address, 33/34/49-byte key) are judged.
    if p in ("address", "tx_rollup_l2_address") and v[1]:
        return
    try:
        guess = blind_unpack(data)
    except Exception as e:
        raise Violation("blind_unpack raised %r on %s" % (e, data.hex()), case, "blind-raise")
    if isinstance(guess, str) and rc.tz_decode(guess.split("%")[0]) is not None:
        kind = rc.tz_decode(guess.split("%")[0])[0]
        if kind in ("tz1", "tz2", "tz3", "tz4", "KT1", "sr1", "txr1", "edpk", "sppk", "p2pk", "BLpk"):
            want_kind = rc.tz_decode(s.split("%")[0])[0]
            if (kind != want_kind or guess.split("%")[0] != s.split("%")[0]):
                raise Violation("blind_unpack(%s) = %s but the bytes encode %s" % (data.hex(), guess, s), case,
                                "blind-wrong-kind:" + p)


def _kind(t, v):
    p = t["prim"]
    if p == "key_hash":
        return "key_hash:tz%d:%s" % (v[0] + 1, "first<=3" if v[1] <= 3 else ("last0" if v[-1] == 0 else "plain"))
    if p in ("address", "tx_rollup_l2_address"):
        return "address:%d" % v[0][0]
    if p == "signature":
        return "signature:%d" % len(v)
    if p == "key":
        return "key:%d" % v[0]
    return p


def _ts(t):
    return t["prim"] if not rv.targs(t) else "(%s %s)" % (t["prim"], " ".join(_ts(a) for a in rv.targs(t)))


def replay(case):
    oracle(case)


def _special(t, v):
    p = t["prim"]
    if p == "key_hash":
        return v[0] != 0 or v[1] <= 3 or v[-1] == 0
    if p in ("address", "contract", "tx_rollup_l2_address"):
        b, ep = v
        h = b[2:] if b[0] == 0 else b[1:21]
        return bool(ep) or b[0] != 0 or b[1] != 0 or h[0] <= 3 or h[-1] == 0
    if p == "key":
        return v[0] != 0
    if p == "signature":
        return len(v) == 96
    if p == "pair":
        return _special(rv.targs(t)[0], v[0]) or _special(rv.targs(t)[1], v[1])
    if p == "option":
        return v is not None and _special(rv.targs(t)[0], v[1])
    if p == "list":
        return any(_special(rv.targs(t)[0], x) for x in v)
    return False


@st.composite
def cases(draw):
    leaf = draw(st.sampled_from(DOMAIN + ["address", "key_hash", "key_hash"]))
    t = rv.T(leaf)
    shape = draw(st.sampled_from(["bare", "bare", "bare", "pair", "option", "list", "pair4"]))
    if leaf == "address" and draw(st.integers(0, 4)) == 0:
        t = rv.T("tx_rollup_l2_address")  # txr1 addresses live in their own type in pytezos
        val = draw(gt.addresses(kinds=(2,)))
    else:
        val = draw(gt.values(t))
    if leaf == "chain_id" and draw(st.integers(0, 2)) == 0:  # chain ids that are also well-formed packed data (05 + int)
        n = draw(st.integers(64, 8191))
        val = b"\x05\x00" + bytes([0x80 | (n & 0x3f), n >> 6])
    if leaf == "signature" and draw(st.integers(0, 3)) == 0:  # signatures that are also well-formed packed bytes / strings
        ln = draw(st.sampled_from([64, 96]))
        tag = draw(st.sampled_from([b"\x0a", b"\x01"]))
        body = draw(st.binary(min_size=ln - 6, max_size=ln - 6)) if tag == b"\x0a" else bytes(draw(st.lists(st.integers(32, 126), min_size=ln - 6, max_size=ln - 6)))
        val = b"\x05" + tag + (ln - 6).to_bytes(4, "big") + body
    case = {}
    if leaf == "signature" and shape == "bare":
        if len(val) == 64:
            case["sig_prefix"] = draw(st.sampled_from(["sig", "edsig", "spsig", "p2sig"]))
        else:
            case["sig_prefix"] = "BLsig"
    if shape == "pair":
        t2 = rv.T(draw(st.sampled_from(DOMAIN)))
        t, val = rv.T("pair", t, t2), (val, draw(gt.values(t2)))
    elif shape == "option":
        t, val = rv.T("option", t), ("Some", val)
    elif shape == "list":
        t, val = rv.T("list", t), [val, draw(gt.values(t))]
    elif shape == "pair4":
        ts = [t] + [rv.T(draw(st.sampled_from(DOMAIN + ["nat"]))) for _ in range(3)]
        vs = [val] + [draw(gt.values(x)) for x in ts[1:]]
        t = rv.pair_t(*ts)
        val = (vs[0], (vs[1], (vs[2], vs[3])))
    case.update({"t": t, "v": rv.to_micheline(t, val), "shape": shape})
    return case


def _prop(case, stats):
    v = oracle(case)
    t = case["t"]
    stats.case(case, _special(t, v), "%s:%s" % (case["shape"], _kind(t, v) if case["shape"] == "bare" else t["prim"]),
               sample={"type": _ts(t), "value": case["v"]})


def run(h):
    h.run_given(cases, _prop, h.n(500, 20000), shards=8 if h.quick else 16)
