"""C13 — entrypoint resolution and parameter decoding are mutual inverses."""
import itertools

from hypothesis import strategies as st

from vlib import gen_types as gt
from vlib import ref_entrypoints as re_
from vlib import ref_values as rv
from vlib.harness import Violation

PID = "C13"
RULE = ("parameter types: or-trees of depth 0..3 with %field annotations at every subset of inner nodes and leaves "
        "(exhaustive for all tree shapes with <=4 leaves over the name pool {a,b,default} with unique names; sampled "
        "for deeper trees, duplicate names, 'root', root annotations, non-union roots, the bare annotation `%`, :type annotations on "
        "any node); leaves int/nat/string/unit/"
        "pair; values: every leaf path x a generated leaf value. Oracle: reference entrypoint table (annotated nodes "
        "reachable through or + root): list_entrypoints has exactly those names with the right types; duplicate "
        "names rejected; for every full value v: to_parameters() gives a listed (e, a) and from_parameters(e, a) "
        "rebuilds v; for every listed e and argument a: from_parameters(e, a) == reference wrapping and "
        "to_parameters of it round-trips. Non-trivial: an annotated inner node, an unannotated leaf, or a "
        "default/root name. Distinct = distinct (type, leaf path).")

LEAF_TYPES = [rv.T("int"), rv.T("nat"), rv.T("string"), rv.T("unit"), rv.T("pair", rv.T("int"), rv.T("nat"))]
# the sampled tier also uses leaves whose values can be "nothing" (None, empty, False) or lazy (big_map literals)
RICH_LEAVES = LEAF_TYPES + [rv.T("option", rv.T("key_hash")), rv.T("option", rv.T("nat")), rv.T("big_map", rv.T("string"), rv.T("bytes")),
                            rv.T("list", rv.T("nat")), rv.T("bool"), rv.T("bytes"), rv.T("map", rv.T("nat"), rv.T("string")),
                            rv.T("pair", rv.T("big_map", rv.T("nat"), rv.T("nat")), rv.T("option", rv.T("string")))]


def _ts(t):
    s = t["prim"] + "".join(" " + a for a in t.get("annots", []))
    if rv.targs(t):
        s += " " + " ".join(_ts(a) for a in rv.targs(t))
    return "(%s)" % s if (rv.targs(t) or t.get("annots")) else s


def _ptype(at):
    from pytezos.michelson.sections.parameter import ParameterSection
    import pytezos.michelson.types  # noqa: F401
    return ParameterSection.match({"prim": "parameter", "args": [at]})


def _sample_value(t, k):
    """Deterministic small value of a leaf type."""
    p = t["prim"]
    if p == "int":
        return -3 + k
    if p == "nat":
        return 7 + k
    if p == "string":
        return "s%d" % k
    if p == "unit":
        return ()
    if p == "pair":
        return (_sample_value(rv.targs(t)[0], k), _sample_value(rv.targs(t)[1], k))
    if p == "or":
        return ("Left", _sample_value(rv.targs(t)[0], k))
    a = rv.targs(t)
    if p == "option":
        return None if k % 2 == 0 else ("Some", _sample_value(a[0], k))
    if p == "key_hash":
        return bytes([k % 3]) + bytes([k] * 20)
    if p in ("big_map", "map"):
        return [] if k % 2 == 0 else [(_sample_value(a[0], k), _sample_value(a[1], k))]
    if p == "list":
        return [] if k % 2 == 0 else [_sample_value(a[0], k)]
    if p == "bool":
        return k % 2 == 1
    if p == "bytes":
        return b"" if k % 2 == 0 else bytes([k])
    raise ValueError(p)


def oracle(case):
    at = case["t"]
    t = gt.strip(at)
    entries, roots, dup = re_.table(at)
    if not dup and roots & set(entries):
        # branches named both `default` and `root` with an un-annotated root: Tezos has no name for the root at all,
        # pytezos' conventional name `root` is taken by a branch. No root entrypoint exists -> outside the statement.
        return "no-root-entrypoint"
    try:
        pty = _ptype(at)
        listed = pty.list_entrypoints()
        err = None
    except Exception as e:
        pty, listed, err = None, None, e
    if dup:
        if err is None:
            raise Violation("parameter %s has duplicate entrypoint names but was accepted: %s" % (_ts(at), sorted(listed)),
                            case, "duplicate-accepted")
        return "duplicate-rejected"
    if err is not None:
        raise Violation("valid parameter type %s rejected: %r" % (_ts(at), err), case, "valid-rejected")
    names = set(listed)
    root_listed = names - set(entries)
    if not (set(entries) <= names) or len(root_listed) != 1 or not (root_listed <= roots):
        raise Violation("list_entrypoints of %s = %s; annotated branches %s + root %s" % (
            _ts(at), sorted(names), sorted(entries), sorted(roots)), case, "entrypoint-names")
    root = next(iter(root_listed))
    from vlib.interp import strip_annots
    for n, (p, sub) in entries.items():
        if strip_annots(listed[n].as_micheline_expr()) != gt.strip(sub):
            raise Violation("entrypoint %s of %s has type %s, expected %s" % (n, _ts(at), listed[n].as_micheline_expr(),
                                                                             _ts(sub)), case, "entrypoint-type")
    if strip_annots(listed[root].as_micheline_expr()) != t:
        raise Violation("root entrypoint %s has type %s" % (root, listed[root].as_micheline_expr()), case, "root-type")
    # (1) every full value -> (e, a) -> same value
    for k, (path, lt) in enumerate(re_.leaf_paths(t)):
        leaf = rv.to_micheline(lt, _sample_value(lt, k + case.get("k", 0)), "optimized")
        full = re_.wrap(leaf, path)
        try:
            obj = pty.from_micheline_value(full)
            if case.get("touch_python"):   # the value is also looked at as a Python object (what a REPL or a log line does)
                try:
                    obj.to_python_object()
                except Exception:
                    pass
            params = obj.to_parameters(mode="optimized")
        except Exception as e:
            raise Violation("to_parameters raised %r for value %s of parameter %s" % (e, full, _ts(at)), case,
                            "to_parameters-raise")
        e, a = params["entrypoint"], params["value"]
        if e not in names:
            raise Violation("to_parameters of %s (parameter %s) names entrypoint %r which is not listed %s" % (
                full, _ts(at), e, sorted(names)), case, "to_parameters-unlisted")
        try:
            back = pty.from_parameters({"entrypoint": e, "value": a}).to_micheline_value(mode="optimized")
        except Exception as ex:
            raise Violation("from_parameters(%s, %s) raised %r (parameter %s)" % (e, a, ex, _ts(at)), case,
                            "from_parameters-raise")
        if back != full:
            raise Violation("value %s -> (%s, %s) -> %s (parameter %s)" % (full, e, a, back, _ts(at)), case,
                            "value-roundtrip")
    # (2) every listed entrypoint x argument
    for n in sorted(names):
        if n == root:
            p, sub = "", t
        else:
            p, sub = entries[n][0], gt.strip(entries[n][1])
        for k, (lp, lt) in enumerate(re_.leaf_paths(sub)):
            arg = re_.wrap(rv.to_micheline(lt, _sample_value(lt, k), "optimized"), lp)
            want = re_.wrap(arg, p)
            try:
                obj = pty.from_parameters({"entrypoint": n, "value": arg})
                full = obj.to_micheline_value(mode="optimized")
            except Exception as ex:
                raise Violation("from_parameters(%s, %s) raised %r (parameter %s)" % (n, arg, ex, _ts(at)), case,
                                "from_parameters-raise")
            if full != want:
                raise Violation("from_parameters(%s, %s) = %s, expected %s (parameter %s)" % (n, arg, full, want, _ts(at)),
                                case, "from_parameters-value")
            try:
                params = obj.to_parameters(mode="optimized")
                again = pty.from_parameters(params).to_micheline_value(mode="optimized")
            except Exception as ex:
                raise Violation("to_parameters/from_parameters raised %r on %s (parameter %s)" % (ex, full, _ts(at)), case,
                                "to_parameters-raise")
            if again != want:
                raise Violation("(%s, %s) -> %s -> %s -> %s (parameter %s)" % (n, arg, full, params, again, _ts(at)), case,
                                "entrypoint-roundtrip")
            # the pair itself comes back when no more specific entrypoint lies on the path of the value (when one does, naming
            # it instead is an equally valid answer and is not constrained here)
            node, deeper = (at if n == root else entries[n][1]), False
            for step in lp:
                node = node["args"][int(step)]
                deeper = deeper or re_.field(node) is not None
            if not deeper and params != {"entrypoint": n, "value": arg}:
                raise Violation("(%s, %s) -> %s -> %s: the pair does not come back although `%s` is the most specific entrypoint on "
                                "the value's path (parameter %s)" % (n, arg, full, params, n, _ts(at)), case, "pair-roundtrip")
    return "ok"


def replay(case):
    oracle(case)


def shapes(n_leaves):
    """All binary or-tree shapes with n leaves (as nested tuples, None = leaf)."""
    if n_leaves == 1:
        return [None]
    out = []
    for l in range(1, n_leaves):
        for a in shapes(l):
            for b in shapes(n_leaves - l):
                out.append((a, b))
    return out


def nodes(shape, path=""):
    if shape is None:
        return [path]
    return [path] + nodes(shape[0], path + "0") + nodes(shape[1], path + "1")


def build(shape, names, path="", leaf_i=[0], tnames=None, leaves=None):
    ann = ["%" + names[path]] if names.get(path) is not None else []   # "" gives the bare annotation `%` (= no name)
    if tnames and tnames.get(path):
        ann.append(":" + tnames[path])
    if shape is None:
        if leaves:
            t = dict(leaves[int("1" + path, 2) % len(leaves)])
        else:
            t = dict(LEAF_TYPES[sum(map(int, path or "0")) % len(LEAF_TYPES)])
    else:
        t = {"prim": "or", "args": [build(shape[0], names, path + "0", tnames=tnames, leaves=leaves),
                                    build(shape[1], names, path + "1", tnames=tnames, leaves=leaves)]}
    if ann:
        t["annots"] = ann
    return t


def exhaustive_items(max_leaves):
    items = []
    pool = ["a", "b", "default"]
    for n in range(1, max_leaves + 1):
        for shape in shapes(n):
            ns = nodes(shape)
            # every assignment of distinct names (or none) to nodes
            for k in range(0, min(len(pool), len(ns)) + 1):
                for subset in itertools.combinations(ns, k):
                    for perm in itertools.permutations(pool, k):
                        items.append({"t": build(shape, dict(zip(subset, perm))), "k": len(items) % 3, "touch_python": len(items) % 2 == 1})
    return items


@st.composite
def sampled(draw):
    n = draw(st.integers(1, 7))
    shape = draw(st.sampled_from(shapes(min(n, 6))))
    ns = nodes(shape)
    # (entrypoint names may be up to 31 characters long)
    pool = ["a", "b", "c", "d", "e", "default", "root", "a", "do", "x_1", "e" * 31, "f" * 30, "transfer_ownership_of_the_token",
            "set%admin", "get%", "a.b", "x@y", "mint", "mint%batch"]   # (after the first character `.`, `%` and `@` are legal too)
    names, tnames = {}, {}
    for p in ns:
        if draw(st.integers(0, 2)) == 0:
            names[p] = draw(st.sampled_from(pool + ["", ""]))
        if draw(st.integers(0, 5)) == 0:  # :type annotations never matter for entrypoints
            tnames[p] = draw(st.sampled_from(["action", "t", "a"]))
    leaves = draw(st.lists(st.sampled_from(RICH_LEAVES), min_size=3, max_size=8)) if draw(st.booleans()) else None
    return {"t": build(shape, names, tnames=tnames, leaves=leaves), "k": draw(st.integers(0, 5)), "touch_python": draw(st.booleans())}


def _prop(case, stats):
    res = oracle(case)
    at = case["t"]
    entries, roots, dup = re_.table(at)
    if res == "no-root-entrypoint":
        stats.label("excluded:no-root-entrypoint")
        return
    inner = any(sub["prim"] == "or" for n, (p, sub) in entries.items())
    unann = any(re_.field(rv_t) is None for rv_t in _leaves(at))
    special = bool({"default", "root"} & (set(entries) | {re_.field(at) or ""}))
    stats.case(case, inner or unann or special or dup, "dup" if dup else ("inner-annotated" if inner else
               ("unannotated-leaf" if unann else "plain")), sample={"type": _ts(at), "result": res})


def _leaves(t):
    if t["prim"] == "or":
        return [x for a in t["args"] for x in _leaves(a)]
    return [t]


def run(h):
    items = exhaustive_items(3 if h.quick else 4)
    h.exhaustive = True
    h.coverage_extra["exhaustive_subdomain"] = ("all or-tree shapes with <=%d leaves x all assignments of distinct names "
                                                "from {a,b,default} to any subset of nodes (root included)" % (3 if h.quick else 4))
    h.run_enum(items, _prop, shards=16)
    h.run_given(sampled, _prop, h.n(150, 6000), shards=8 if h.quick else 16, name="sampled")
