"""C16 — arithmetic and numeric conversions are exact."""
import itertools

from hypothesis import strategies as st

from vlib import gen_types as gt
from vlib import interp
from vlib import ref_arith as ra
from vlib import ref_values as rv
from vlib.harness import Violation

PID = "C16"
RULE = ("every operand-type combination of ADD SUB SUB_MUTEZ MUL EDIV ABS NEG ISNAT INT NAT BYTES LSL LSR AND OR XOR NOT "
        "over int nat mutez timestamp bytes bool x the full cross product of a boundary set (0, +-1, 2^(8k)-1, 2^(8k), "
        "2^(8k-1) for k=1,2,8, 255..257 for shifts, 2^63-1, 2^63 neighbours; exhaustive for that set) plus "
        "hypothesis values up to 4096 bits; operands pushed directly, or taken out of field-annotated pair components, or pushed at "
        ":type-annotated types. Oracle: reference big-int arithmetic incl. exact failure conditions (mutez "
        "overflow on ADD/MUL, shift > 256) and exact None conditions (EDIV by zero, SUB_MUTEZ negative, ISNAT "
        "negative), result type and value; INT(BYTES i) = i, NAT(BYTES n) = n, BYTES minimal. Excluded (recorded): "
        "bitwise/shift forms on bytes and the deprecated SUB mutez mutez, which pytezos does not implement. "
        "Non-trivial: an operand is at a boundary. Distinct = distinct (op, types, operands).")

B_INT = sorted({0, 1, -1, 2, -2, 127, 128, -128, -129, 255, 256, -255, -256, -257, 257, 32767, 32768, -32768, -32769, 65535,
                65536, 2 ** 63 - 1, 2 ** 63, -2 ** 63, -2 ** 63 - 1, 2 ** 64 - 1, 2 ** 64, 7, -7})
B_NAT = sorted({v for v in B_INT if v >= 0} | {3, 255, 256, 257, 258})
B_MUTEZ = sorted({0, 1, 2, 3, 7, 2 ** 62, 2 ** 63 - 1, 2 ** 63 - 2, 2 ** 32, 10 ** 6})
B_TS = [0, 1, -1, 2 ** 31, -62135596800, 253402300800, -2 ** 63, 2 ** 63]
B_BYTES = [b"", b"\x00", b"\x01", b"\x7f", b"\x80", b"\xff", b"\x00\x80", b"\x00\xff", b"\xff\x7f", b"\x00\x00\x01",
           b"\xff\xff\x80", b"\x80\x00", b"\x01\x00", b"\x7f\xff", b"\x00" * 9 + b"\x01", b"\xff" * 9]
BOUNDARY = {"int": B_INT, "nat": B_NAT, "mutez": B_MUTEZ, "timestamp": B_TS, "bytes": B_BYTES, "bool": [False, True]}


def _mich(t, v):
    return rv.to_micheline(rv.T(t), v)


def oracle(case):
    op, types = case["op"], case["types"]
    vals = [rv.from_micheline(rv.T(t), m) for t, m in zip(types, case["vals"])]
    want = ra.apply(op, tuple(types), tuple(vals))
    route = case.get("route")
    if route == "fields":    # the operands are taken out of field-annotated pair components (as parameters and storages deliver them)
        if len(types) == 2:
            pt = {"prim": "pair", "args": [dict(rv.T(types[0]), annots=["%balance"]), dict(rv.T(types[1]), annots=["%fee"])]}
            code = [interp.push(pt, {"prim": "Pair", "args": [_mich(types[0], vals[0]), _mich(types[1], vals[1])]}), {"prim": "UNPAIR"}, {"prim": op}]
        else:
            pt = {"prim": "pair", "args": [dict(rv.T(types[0]), annots=["%amount"]), rv.T("unit")]}
            code = [interp.push(pt, {"prim": "Pair", "args": [_mich(types[0], vals[0]), {"prim": "Unit"}]}), {"prim": "CAR"}, {"prim": op}]
    elif route == "typed":   # operand types carry :type annotations
        code = [interp.push(dict(rv.T(t), annots=[":t%d" % i]), _mich(t, v)) for i, (t, v) in reversed(list(enumerate(zip(types, vals))))] + [{"prim": op}]
    else:
        code = [interp.push(rv.T(t), _mich(t, v)) for t, v in reversed(list(zip(types, vals)))] + [{"prim": op}]
    stk, out, err = interp.run(code)
    desc = "%s %s%s" % (op, " ".join("%s:%s" % (t, _short(v)) for t, v in zip(types, vals)),
                        {"fields": " (operands taken from field-annotated pair components)", "typed": " (operand types carry :type annotations)"}.get(route, ""))
    sig = "%s:%s" % (op, "/".join(types))
    if want[0] == "fail":
        if err is None:
            ty, got = interp.read_item(stk.items[0])
            raise Violation("%s must fail (%s) but returned %s" % (desc, want[1], got), case, "no-fail:" + sig)
        return want
    if err is not None:
        raise Violation("%s failed: %r; Michelson gives %s" % (desc, err.args, _short(want[2])), case, "raise:" + sig)
    if len(stk.items) != 1:
        raise Violation("%s left %d items" % (desc, len(stk.items)), case, "stack:" + sig)
    ty, got = interp.read_item(stk.items[0])
    if ty != want[1]:
        raise Violation("%s has result type %s, Michelson type %s" % (desc, ty, want[1]), case, "type:" + sig)
    gv = interp.parse_output(want[1], got, "result")
    if gv != want[2]:
        raise Violation("%s = %s, Michelson gives %s" % (desc, _short(gv), _short(want[2])), case, "value:" + sig)
    if op == "BYTES":  # inverse law
        inv = "INT" if types[0] == "int" else "NAT"
        stk2, _, err2 = interp.run([interp.push(rv.T("bytes"), {"bytes": want[2].hex()}), {"prim": inv}])
        if err2 is not None:
            raise Violation("%s(BYTES %s) failed: %r" % (inv, vals[0], err2.args), case, "inverse-raise:" + inv)
        ty2, got2 = interp.read_item(stk2.items[0])
        if got2 != {"int": str(vals[0])}:
            raise Violation("%s(BYTES %s) = %s" % (inv, vals[0], got2), case, "inverse:" + inv)
    return want


def _short(v):
    s = repr(v)
    return s if len(s) < 90 else s[:90] + "…"


def replay(case):
    oracle(case)


def combos():
    out = []
    for op, table in ra.BINARY.items():
        for tys in table:
            out.append((op, list(tys)))
    for op, table in ra.UNARY.items():
        for ty in table:
            out.append((op, [ty]))
    return out


def _boundary(types, vals):
    return any(v in BOUNDARY[t] for t, v in zip(types, vals))


def _prop(case, stats):
    res = oracle(case)
    vals = [rv.from_micheline(rv.T(t), m) for t, m in zip(case["types"], case["vals"])]
    kind = "fail" if res[0] == "fail" else ("none" if res[2] is None and res[1]["prim"] == "option" else "value")
    stats.case(case, _boundary(case["types"], vals), "%s:%s" % (case["op"], kind),
               sample={"op": case["op"], "types": case["types"], "vals": [_short(v) for v in vals], "result": _short(res[1:])})


def _leaf(t):
    if t == "bytes":
        return st.one_of(st.sampled_from(B_BYTES), st.binary(max_size=40))
    if t == "bool":
        return st.booleans()
    if t == "nat":
        return st.one_of(gt.ints(False), st.integers(250, 260))
    return gt.leaf_value(t)


def run(h):
    items = []
    for op, types in combos():
        sets = [BOUNDARY[t] for t in types]
        if op in ("LSL", "LSR"):
            sets = [BOUNDARY["nat"], sorted(set(B_NAT) | {254, 255, 256, 257, 258, 1000})]
        for vals in itertools.product(*sets):
            items.append({"op": op, "types": types, "vals": [_mich(t, v) for t, v in zip(types, vals)]})
    h.exhaustive = True
    h.coverage_extra["exhaustive_subdomain"] = "cross product of the boundary sets for all %d (instruction, operand types) combinations" % len(combos())
    h.coverage_extra["excluded_variants"] = ["AND/OR/XOR/NOT/LSL/LSR on bytes (not implemented by pytezos)",
                                             "SUB mutez mutez (deprecated)", "AND nat int (not a Michelson typing)"]
    h.run_enum(items, _prop, shards=16)
    # the same grid with the operands delivered through annotated types, for the instructions whose result is built around the
    # operand's type (options, quotient/remainder pairs) or that can fail
    routed = [dict(it, route=("fields" if i % 3 else "typed")) for i, it in enumerate(items)
              if it["op"] in ("SUB_MUTEZ", "EDIV", "ISNAT", "ADD", "SUB", "MUL", "ABS", "NEG", "INT", "NAT", "BYTES", "NOT")]
    h.run_enum(routed if not h.quick else routed[::2], _prop, shards=16)

    @st.composite
    def rand(draw):
        op, types = draw(st.sampled_from(combos()))
        vals = [draw(_leaf(t)) for t in types]
        return {"op": op, "types": types, "vals": [_mich(t, v) for t, v in zip(types, vals)],
                "route": draw(st.sampled_from([None, None, "fields", "typed"]))}

    h.run_given(rand, _prop, h.n(300, 20000), shards=8 if h.quick else 16, name="random")
