"""C21 — BLS12-381 operations respect group and field laws."""
import functools

from hypothesis import strategies as st

from vlib import interp
from vlib import ref_values as rv
from vlib.harness import Violation

PID = "C21"
RULE = ("G1/G2 points k*G for k in {0 (infinity), 1, 2, r-1, random 256-bit}, Fr scalars {0, 1, r-1, r, r+1, random, "
        "negative ints}, lists of 0..3 pairs for PAIRING_CHECK. Oracle: laws checked through the interpreter against "
        "scalar arithmetic mod r and an own serialisation of k*G from py_ecc coordinates: aG+bG=(a+b)G, P+0=P, "
        "P+(-P)=0, NEG(aG)=(r-a)G, MUL(aG,s)=(as)G, associativity, distributivity, Fr ADD/MUL/NEG/INT mod r, "
        "MUL nat/int x fr; point encodings round-trip incl. infinity; PAIRING_CHECK [(aG1,bG2),(-abG1,G2)] true (lists with a repeated pair included; every list is checked twice in "
        "the same process), "
        "perturbed lists false, empty list true. Non-trivial: infinity or scalar 0/r-1 occurs, or the case is a "
        "pairing. Distinct = distinct case.")

R = rv.BLS_R
G1T, G2T, FRT = rv.T("bls12_381_g1"), rv.T("bls12_381_g2"), rv.T("bls12_381_fr")


@functools.lru_cache(maxsize=4096)
def g1(k):
    from py_ecc.optimized_bls12_381 import G1, Z1, is_inf, multiply, normalize
    p = multiply(G1, k % R) if k % R else Z1
    if is_inf(p):
        return b"\x40" + b"\x00" * 95
    x, y = normalize(p)
    return x.n.to_bytes(48, "big") + y.n.to_bytes(48, "big")


@functools.lru_cache(maxsize=4096)
def g2(k):
    from py_ecc.optimized_bls12_381 import G2, Z2, is_inf, multiply, normalize
    p = multiply(G2, k % R) if k % R else Z2
    if is_inf(p):
        return b"\x40" + b"\x00" * 191
    x, y = normalize(p)
    return (x.coeffs[1].to_bytes(48, "big") + x.coeffs[0].to_bytes(48, "big")
            + y.coeffs[1].to_bytes(48, "big") + y.coeffs[0].to_bytes(48, "big"))


def pt(group, k):
    return g1(k) if group == 1 else g2(k)


def ptype(group):
    return G1T if group == 1 else G2T


def pushp(group, k):
    return interp.push(ptype(group), {"bytes": pt(group, k).hex()})


def pushfr(s, as_int=False):
    if as_int:
        return interp.push(FRT, {"int": str(s)})
    return interp.push(FRT, {"bytes": (s % R).to_bytes(32, "little").hex()})


def _run(code, case, what):
    stk, out, err = interp.run(code)
    if err is not None:
        raise Violation("%s failed: %r" % (what, err.args), case, "raise:" + what.split(" ")[0])
    ty, v = interp.read_item(stk.items[0])
    return ty, v


def _expect_point(code, group, k, case, what):
    ty, v = _run(code, case, what)
    want = {"bytes": pt(group, k).hex()}
    if ty != ptype(group) or v != want:
        raise Violation("%s: got %s…, expected %d*G%d = %s…" % (what, str(v)[:60], k % R if k % R < 10 ** 6 else -1, group,
                                                               want["bytes"][:40]), case, "law:" + what.split(" ")[0] +
                        (":infinity" if k % R == 0 or "inf" in what else ""))


def _expect_fr(code, s, case, what):
    ty, v = _run(code, case, what)
    want = {"bytes": (s % R).to_bytes(32, "little").hex()}
    if ty != FRT or v != want:
        raise Violation("%s: got %s, expected %s" % (what, v, want), case, "fr:" + what.split(" ")[0])


def oracle(case):
    m = case["mode"]
    a, b, c, s = case.get("a", 1), case.get("b", 1), case.get("c", 1), case.get("s", 1)
    g = case.get("group", 1)
    if m == "add":
        _expect_point([pushp(g, b), pushp(g, a), {"prim": "ADD"}], g, a + b, case, "ADD aG bG%s" % (" inf" if 0 in (a % R, b % R) else ""))
        _expect_point([pushp(g, a), {"prim": "NEG"}, pushp(g, a), {"prim": "ADD"}], g, 0, case, "ADD P (NEG P)")
        _expect_point([pushp(g, 0), pushp(g, a), {"prim": "ADD"}], g, a, case, "ADD P inf")
        _expect_point([pushp(g, a), pushp(g, 0), {"prim": "ADD"}], g, a, case, "ADD inf P")
    elif m == "neg":
        _expect_point([pushp(g, a), {"prim": "NEG"}], g, R - (a % R), case, "NEG aG%s" % (" inf" if a % R == 0 else ""))
        _expect_point([pushp(g, a), {"prim": "NEG"}, {"prim": "NEG"}], g, a, case, "NEG NEG aG")
    elif m == "mul":
        _expect_point([pushfr(s, case.get("fr_int", False)), pushp(g, a), {"prim": "MUL"}], g, a * s, case,
                      "MUL aG s%s" % (" inf" if (a * s) % R == 0 else ""))
    elif m == "assoc":
        _expect_point([pushp(g, c), pushp(g, b), pushp(g, a), {"prim": "ADD"}, {"prim": "ADD"}], g, a + b + c, case, "ADD (a+b)+c")
        _expect_point([pushp(g, c), pushp(g, b), {"prim": "ADD"}, pushp(g, a), {"prim": "ADD"}], g, a + b + c, case, "ADD a+(b+c)")
    elif m == "distrib":
        # s*(aG + bG) == s*aG + s*bG
        _expect_point([pushfr(s), pushp(g, b), pushp(g, a), {"prim": "ADD"}, {"prim": "MUL"}], g, s * (a + b), case, "MUL (aG+bG) s")
        _expect_point([pushfr(s), pushp(g, b), {"prim": "MUL"}, pushfr(s), pushp(g, a), {"prim": "MUL"}, {"prim": "ADD"}],
                      g, s * (a + b), case, "ADD (MUL aG s) (MUL bG s)")
    elif m == "fr":
        i = case.get("fr_int", False)
        _expect_fr([pushfr(b, i), pushfr(a, i), {"prim": "ADD"}], a + b, case, "ADD fr fr")
        _expect_fr([pushfr(b, i), pushfr(a, i), {"prim": "MUL"}], a * b, case, "MUL fr fr")
        _expect_fr([pushfr(a, i), {"prim": "NEG"}], -a, case, "NEG fr")
        ty, v = _run([pushfr(a, i), {"prim": "INT"}], case, "INT fr")
        if ty != rv.T("int") or v != {"int": str(a % R)}:
            raise Violation("INT fr %d = %s, expected %d" % (a, v, a % R), case, "fr:INT")
        for t, x in (("nat", abs(b)), ("int", b)):
            _expect_fr([pushfr(a, i), interp.push(rv.T(t), {"int": str(x)}), {"prim": "MUL"}], a * x, case, "MUL %s fr" % t)
            _expect_fr([interp.push(rv.T(t), {"int": str(x)}), pushfr(a, i), {"prim": "MUL"}], a * x, case, "MUL fr %s" % t)
    elif m == "pairing":
        lt = rv.T("list", rv.T("pair", G1T, G2T))
        pairs = [(x, y) for x, y in case["pairs"]]
        lit = [{"prim": "Pair", "args": [{"bytes": g1(x).hex()}, {"bytes": g2(y).hex()}]} for x, y in pairs]
        want = sum(x * y for x, y in pairs) % R == 0
        for attempt in (1, 2):  # the verdict is a function of the list: asking again in the same process gives it again
            ty, v = _run([interp.push(lt, lit), {"prim": "PAIRING_CHECK"}], case, "PAIRING_CHECK")
            if ty != rv.T("bool") or v != {"prim": "True" if want else "False"}:
                raise Violation("PAIRING_CHECK %s = %s (execution #%d in this process), expected %s" % (
                    [(x % R, y % R) for x, y in pairs], v, attempt, want), case,
                    "pairing:%s%s" % ("inf" if any(x % R == 0 or y % R == 0 for x, y in pairs) else str(want),
                                      ":repeated-execution" if attempt == 2 else ""))
    return True


def replay(case):
    oracle(case)


def _big():
    # hypothesis draws small integers first; the interesting scalars are the full-width ones
    return st.builds(lambda hi, lo: (hi << 128) | lo, st.integers(2 ** 120, 2 ** 127 - 1), st.integers(0, 2 ** 128 - 1))


def scal():
    return st.one_of(st.sampled_from([0, 1, 2, R - 1, R, R + 1, 3, 5]), _big().map(lambda v: v % R), _big().map(lambda v: v % R),
                     st.integers(1, 50))


def kmul():
    return st.one_of(st.sampled_from([0, 1, 2, R - 1, 3]), _big(), st.integers(1, 30))


@st.composite
def cases(draw, pairings):
    m = draw(st.sampled_from(["add", "add", "neg", "mul", "mul", "assoc", "distrib", "fr", "fr"] + (["pairing"] if pairings else [])))
    case = {"mode": m, "group": draw(st.sampled_from([1, 1, 2])), "a": draw(kmul()), "b": draw(kmul()), "c": draw(kmul()),
            "s": draw(scal()), "fr_int": draw(st.booleans())}
    if m == "fr":
        case["a"], case["b"] = draw(scal()), draw(st.one_of(scal(), st.integers(-50, 50), st.integers(-R, R)))
    if m == "pairing":
        kind = draw(st.sampled_from(["balanced", "perturbed", "empty", "single-inf", "random", "three", "repeated", "repeated"]))
        a, b = draw(st.integers(1, 20)), draw(st.integers(1, 20))
        if kind == "balanced":
            pairs = [[a, b], [R - (a * b) % R, 1]]
        elif kind == "perturbed":
            pairs = [[a, b], [R - (a * b) % R + 1, 1]]
        elif kind == "empty":
            pairs = []
        elif kind == "single-inf":
            pairs = [[0, b]] if draw(st.booleans()) else [[a, 0]]
        elif kind == "repeated":  # the same pair twice in one list: e(aG1,bG2)^2 * e(-2ab G1, G2) = 1, or off by one factor
            pairs = [[a, b], [a, b], [R - (2 * a * b) % R if draw(st.booleans()) else R - (a * b) % R, 1]]
        elif kind == "random":
            pairs = [[draw(st.integers(0, 6)), draw(st.integers(0, 6))] for _ in range(draw(st.integers(1, 2)))]
        else:  # three pairs: a*b + c*1 + (-(ab+c))*1 = 0
            c = draw(st.integers(1, 9))
            pairs = [[a, b], [c, 1], [R - (a * b + c) % R + draw(st.sampled_from([0, 0, 1])), 1]]
        case["pairs"] = pairs
    return case


def _prop(case, stats):
    oracle(case)
    vals = [case["a"] % R, case["b"] % R, case["s"] % R]
    nt = case["mode"] == "pairing" or any(v in (0, R - 1) for v in vals)
    stats.case(case, nt, "%s:g%d" % (case["mode"], case["group"]) if case["mode"] not in ("fr", "pairing") else case["mode"],
               sample={k: (v if not isinstance(v, int) or v < 10 ** 9 else "~2^%d" % v.bit_length()) for k, v in case.items()})


def run(h):
    sh = 8 if h.quick else 16
    h.run_given(lambda: cases(False), _prop, h.n(40, 1500), shards=sh, name="laws", shrink=False)
    h.run_given(lambda: st.builds(lambda c: dict(c, mode="pairing") if c["mode"] == "pairing" else c, cases(True)).filter(
        lambda c: c["mode"] == "pairing"), _prop, h.n(2, 30), shards=16, name="pairings", shrink=False)
