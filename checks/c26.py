"""C26 — RPC requests retry exactly the transient node failures."""
import itertools
import json

from hypothesis import strategies as st

from vlib import fake_http
from vlib.harness import Violation

PID = "C26"
LEVEL = "fault_enumeration"
RULE = ("response sequences: exhaustive over an alphabet of 5 transient and 10 terminal responses, every sequence "
        "of up to 6 attempts (k transient then one terminal, k=0..5, and all 6-transient sequences), cycled over "
        "the four verbs and node objects configured with one address or a list of 1..3 addresses, plus hypothesis-generated bodies (random error ids/kinds/list shapes/content types/response headers such as Retry-After/"
        "statuses). Oracle = reference retry policy (calls made, same url, sleeps count/non-decreasing/<=2.0, "
        "returned JSON or RpcError carrying the last response's error); responses the statement leaves open "
        "(mixed temporary/permanent lists) branch the reference both ways. Non-trivial: sequence contains >=1 "
        "transient response. Distinct = distinct (verb, sequence).")

J = "application/json"
P = "proto.024-PtTALLiN.michelson_v1.script_rejected"

TRANSIENT = [
    {"status": 500, "ctype": J, "json": [{"kind": "temporary", "id": "node.prevalidation.busy"}]},
    {"status": 502, "ctype": J, "json": [{"kind": "temporary", "id": "failure", "msg": "x"}]},
    {"status": 503, "ctype": J, "json": [{"kind": "temporary", "id": "a.b"}, {"kind": "temporary", "id": "c"}]},
    {"status": 500, "ctype": "text/plain", "text": "Assert_failure src/lib_shell/prevalidator.ml:1918:8"},
    {"status": 503, "ctype": None, "text": "(Failure \"prevalidator.ml\")"},
]
TERMINAL = [
    {"status": 200, "ctype": J, "json": {"ok": 1}},
    {"status": 200, "ctype": J, "json": [{"kind": "temporary", "id": "looks.like.error"}]},
    {"status": 500, "ctype": J, "json": [{"kind": "permanent", "id": "node.state.invalid"}]},
    {"status": 500, "ctype": J, "json": [{"kind": "temporary", "id": P}]},
    {"status": 500, "ctype": J, "json": [{"kind": "temporary", "id": "node.prevalidation.busy"}, {"kind": "temporary", "id": P}]},
    {"status": 503, "ctype": J, "json": [{"kind": "temporary", "id": P}, {"kind": "temporary", "id": "failure"}]},
    {"status": 500, "ctype": "text/plain", "text": "Internal Server Error"},
    {"status": 500, "ctype": J, "text": "{not json"},
    {"status": 401, "ctype": J, "json": [{"kind": "temporary", "id": "auth"}]},
    {"status": 404, "ctype": "text/plain", "text": "prevalidator.ml not found"},
    {"status": 400, "ctype": J, "json": [{"kind": "temporary", "id": "bad.request"}]},
    {"status": 409, "ctype": "text/plain", "text": "conflict prevalidator.ml"},
]
VERBS = ["get", "post", "put", "delete"]
MARK = "prevalidator.ml"


def body_text(spec):
    return json.dumps(spec["json"]) if "json" in spec else spec.get("text", "")


def transient(spec):
    """True / False / None (statement leaves it open)."""
    if spec["status"] < 500:
        return False
    text = body_text(spec)
    marker = MARK in text
    if spec.get("ctype") == J:
        try:
            body = json.loads(text)
        except ValueError:
            return True if marker else False
        if isinstance(body, list):
            dicts = [e for e in body if isinstance(e, dict)]
            junk = len(dicts) != len(body)
            proto = [e for e in dicts if isinstance(e.get("id"), str) and e["id"].startswith("proto.")]
            if any(not isinstance(e.get("id", ""), str) for e in dicts):
                return None
            if proto:
                # "errors are temporary and not protocol errors": a body that carries a protocol error is not such a response,
                # wherever the protocol error stands in the list (a prevalidator marker in the same body leaves it open)
                if not junk and not marker:
                    return False
                return None
            temp = [e for e in dicts if e.get("kind") == "temporary"]
            if temp and len(temp) == len(dicts) and not junk:
                return True
            if not temp:
                return None if marker else False
            return None
        return None if marker else False
    return True if marker else False


def expected_outcomes(seq):
    """Set of acceptable (n_calls, final_index) pairs."""
    outs = set()

    def walk(i):
        if i >= len(seq):  # the script answers 200 after the sequence ends
            outs.add((i + 1, i))
            return
        t = transient(seq[i])
        if i == 5:
            outs.add((6, 5))
            return
        if t in (True, None):
            walk(i + 1)
        if t in (False, None):
            outs.add((i + 1, i))

    walk(0)
    return outs


def oracle(case):
    from pytezos.rpc.node import RpcError, RpcNode
    seq, verb = case["seq"], case["verb"]
    over = {"status": 200, "ctype": J, "json": {"overrun": True}}

    def responder(i, method, url):
        return fake_http.from_spec(seq[i] if i < len(seq) else over)

    script = fake_http.Script(responder)
    # a node object may be configured with one address or with a list of addresses (only the first one is used)
    node = RpcNode({0: "http://n0:8732", 1: ["http://n0:8732"], 2: ["http://n0:8732", "http://n1:8732"],
                    3: ["http://n0:8732", "http://n1:8732", "http://n2:8732"]}[case.get("uris", 0)])
    result = exc = None
    with fake_http.patched(script):
        try:
            if verb == "post":
                result = node.post("chains/main/x", json={"a": 1})
            else:
                result = getattr(node, verb)("chains/main/x")
        except RpcError as e:
            exc = e
        except Exception as e:
            if _nonlist_json_error(seq, len(script.calls)):
                return len(script.calls)  # error bodies that are JSON but not a list are outside the node's format
            raise Violation("%s raised non-RpcError %r for %s" % (verb, e, [s["status"] for s in seq]), case,
                            "non-rpc-exception")
    n = len(script.calls)
    outs = expected_outcomes(seq)
    ok = [o for o in outs if o[0] == n]
    if n > 6:
        raise Violation("%d HTTP calls (> 6 attempts)" % n, case, "too-many-attempts")
    if not ok:
        raise Violation("made %d call(s), reference allows %s; statuses=%s transient=%s"
                        % (n, sorted(o[0] for o in outs), [s["status"] for s in seq], [transient(s) for s in seq]),
                        case, "call-count")
    if any(c["url"] != script.calls[0]["url"] or c["method"] != verb.upper() for c in script.calls):
        raise Violation("retries changed url/method: %s" % script.calls, case, "url-changed")
    sl = script.sleeps
    if len(sl) != n - 1:
        raise Violation("%d sleeps for %d calls" % (len(sl), n), case, "sleep-count")
    if any(b < a for a, b in zip(sl, sl[1:])) or any(d > 2.0 for d in sl) or any(d < 0 for d in sl):
        raise Violation("delays %s not non-decreasing / capped at 2.0" % sl, case, "delays")
    final = seq[n - 1] if n - 1 < len(seq) else over
    if final["status"] == 200:
        want = json.loads(body_text(final))
        if exc is not None or result != want:
            raise Violation("final response 200 %r but got result=%r exc=%r" % (want, result, exc), case, "result")
    else:
        if exc is None:
            raise Violation("final response %d but call returned %r" % (final["status"], result), case, "no-raise")
        text = body_text(final)
        if final["status"] == 401:
            good = exc.args and "Unauthorized" in str(exc.args[0])
        elif final["status"] == 404:
            good = exc.args and "Not found" in str(exc.args[0])
        else:
            good = True
            if final.get("ctype") == J:
                try:
                    body = json.loads(text)
                except ValueError:
                    body = None
                if isinstance(body, list) and body and isinstance(body[-1], dict) and "id" in body[-1]:
                    good = exc.args == (body[-1],)
                elif body is None:
                    good = exc.args == (text,)
            else:
                good = exc.args == (text,)
        if not good:
            raise Violation("error raised %r does not carry the last response (%d %r)"
                            % (exc.args, final["status"], text[:80]), case, "wrong-error")
    return n


def _nonlist_json_error(seq, n):
    final = seq[n - 1] if 0 < n <= len(seq) else None
    if not final or final.get("ctype") != J or final["status"] == 200:
        return False
    try:
        body = json.loads(body_text(final))
    except ValueError:
        return False
    # Tezos error bodies are lists of objects that all carry a string "id"; anything else is not a node answer
    return not (isinstance(body, list) and all(isinstance(e, dict) and isinstance(e.get("id"), str) for e in body))


def replay(case):
    oracle(case)


def _prop(case, stats):
    oracle(case)
    nt = any(transient(s) is not False for s in case["seq"][:-1]) or (
        len(case["seq"]) == 6 and transient(case["seq"][-1]) is not False)
    k = sum(1 for s in case["seq"] if transient(s) is True)
    amb = any(transient(s) is None for s in case["seq"])
    if any(s.get("headers") for s in case["seq"]):
        stats.label("with-headers")
    stats.case(case, nt, "ambiguous-in-seq" if amb else "transient=%d" % k,
               sample={"verb": case["verb"], "seq": [(s["status"], s.get("ctype"), body_text(s)[:50])
                                                      for s in case["seq"]]})


def gen_specs():
    ids = st.sampled_from(["node.prevalidation.busy", "failure", P, "proto.alpha.gas_exhausted.block", "protox.y",
                           "prevalidator.ml", "", "a.b.c"])
    kinds = st.sampled_from(["temporary", "permanent", "branch", "temporary"])
    err = st.one_of(
        st.builds(lambda i, k: {"id": i, "kind": k}, ids, kinds),
        st.builds(lambda i: {"id": i}, ids),
        st.builds(lambda k: {"kind": k}, kinds),
        st.sampled_from(["str-entry", 7, None, {}]),
    )
    jbody = st.one_of(st.lists(err, max_size=3), st.sampled_from([{"kind": "temporary"}, "prevalidator.ml", 5, None]))
    status = st.sampled_from([200, 400, 401, 404, 409, 500, 500, 500, 502, 503, 504])
    ctype = st.sampled_from([J, J, "text/plain", None])
    js = st.builds(lambda s, c, b: {"status": s, "ctype": c, "json": b}, status, ctype, jbody)
    tx = st.builds(lambda s, c, t: {"status": s, "ctype": c, "text": t}, status, ctype,
                   st.sampled_from(["", "prevalidator.ml", "oops", "[", "Assert_failure prevalidator.ml:33"]))
    spec = st.one_of(js, tx, st.sampled_from(TRANSIENT), st.sampled_from(TRANSIENT))
    # response headers a proxy or the node may add: the stated policy does not depend on them
    hdr = st.one_of(st.none(), st.none(), st.fixed_dictionaries({}, optional={
        "Retry-After": st.sampled_from(["0", "1", "2", "3", "120", "0.1", "abc", "Wed, 21 Oct 2015 07:28:00 GMT"]),
        "Connection": st.sampled_from(["close", "keep-alive"]), "X-RateLimit-Remaining": st.sampled_from(["0", "10"]),
        "Cache-Control": st.just("no-cache"), "Content-Length": st.just("0")}))
    spec = st.builds(lambda sp, hd: dict(sp, headers=hd) if hd else sp, spec, hdr)

    def fix200(s):
        # success responses are JSON (documented node behaviour); non-JSON 200 is outside the stated alphabet
        if s["status"] == 200 and ("json" not in s):
            return {"status": 200, "ctype": J, "json": {"t": s["text"]}}
        return s
    return st.builds(lambda seq, v, u: {"seq": [fix200(s) for s in seq], "verb": v, "uris": u},
                     st.lists(spec, min_size=1, max_size=7), st.sampled_from(VERBS), st.integers(0, 3))


def run(h):
    seqs = []
    for k in range(0, 6):
        for pre in itertools.product(range(len(TRANSIENT)), repeat=k):
            for t in range(len(TERMINAL)):
                seqs.append((pre, t))
    for pre in itertools.product(range(len(TRANSIENT)), repeat=6):
        seqs.append((pre, None))
    if h.quick:
        # quick: every sequence with <=4 leading transients, and a strided 1/8 of the longer ones
        short = [s for s in seqs if len(s[0]) <= 4]
        longer = [s for s in seqs if len(s[0]) > 4]
        seqs = short + longer[h.seed % 8::8]
        h.exhaustive = False
        h.coverage_extra["exhaustive_subdomain"] = "all alphabet sequences with <=4 leading transient responses"
    else:
        h.exhaustive = True
        h.coverage_extra["exhaustive_subdomain"] = "all alphabet sequences up to the 6-attempt limit"

    items = []
    for idx, (pre, t) in enumerate(seqs):
        seq = [TRANSIENT[i] for i in pre] + ([TERMINAL[t]] if t is not None else [])
        items.append({"seq": seq, "verb": VERBS[idx % 4], "uris": (idx // 4) % 4})
    h.run_enum(items, _prop, shards=16)
    h.coverage_extra["alphabet_sequences"] = len(items)
    h.run_given(gen_specs, _prop, h.n(600, 6000), shards=4 if h.quick else 16, name="bodies")
