"""C24 — automatically chosen fees meet the node's default minimal fee for the signed operation."""
from hypothesis import strategies as st

from vlib import fake_node, gen_keys, gen_ops
from vlib import ref_crypto as rc
from vlib import ref_ops
from vlib.harness import Violation

PID = "C24"
RULE = ("(source key of one of the four curves, batch of 1..6 (one case in nine: 7..50) manager operations of every kind with fee / counter / gas_limit / "
        "storage_limit left to the client, account counter on the node up to 2^64, amounts up to 2^63, node constants (hard gas / "
        "storage limits per operation as on mainnet or different), mode): mode = fill() "
        "(default limits) or autofill() (default or caller-given gas_reserve / burn_reserve) against a simulated node whose run_operation answers `applied` with generated "
        "consumed_milligas (0 .. 1.04e9), paid_storage_size_diff, allocations and internal operation results. The group is then "
        "signed with the real key. Oracle: the node's default mempool rule evaluated independently on the SIGNED operation, in "
        "exact integer nanotez: sum(fee)*1000 >= 100000 + 1000*len(forged bytes + signature) + 100*sum(gas_limit); the byte "
        "string is also decoded by the reference operation codec (fees and limits are read from the bytes, not from the JSON). "
        "Non-trivial: batch of >= 2 operations, or a tz4 (96-byte signature) source, or a counter/amount >= 2^32 that changes the "
        "encoded size. A second tier steers single operations and pairs to the place where the fee field itself grows by a byte "
        "(node minimum within a few mutez of 16384). Distinct = distinct case.")

KINDS = ["transaction", "transaction", "transaction", "origination", "delegation", "delegation", "reveal", "register_global_constant",
         "transfer_ticket", "smart_rollup_add_messages", "smart_rollup_execute_outbox_message"]


def _blank(content):
    c = dict(content)
    c.update(source="", fee="0", counter="0", gas_limit="0", storage_limit="0")
    if c["kind"] == "reveal":
        c["public_key"] = ""
        c.pop("proof", None)
    return c


def _sim_handler(sim):
    """run_operation answer: echoes the contents with generated `applied` results."""
    def handler(req):
        contents = []
        for i, c in enumerate(req["operation"]["contents"]):
            s = sim[i % len(sim)]
            res = {"status": "applied", "consumed_milligas": str(s["milligas"]), "paid_storage_size_diff": str(s["storage"])}
            if s["alloc"]:
                res["allocated_destination_contract"] = True
            if c["kind"] == "origination":
                res["originated_contracts"] = ["KT1BEqzn5Wx8uJrZNvuS9DVHmLvG9td3fDLi"]
            meta = {"operation_result": res}
            if s["internal"]:
                meta["internal_operation_results"] = [
                    {"kind": "transaction", "source": "KT1BEqzn5Wx8uJrZNvuS9DVHmLvG9td3fDLi", "nonce": k, "amount": "0",
                     "destination": "tz1Ke2h7sDdakHJQh8WX4Z372du1KChsksyU",
                     "result": {"status": "applied", "consumed_milligas": str(m)}} for k, m in enumerate(s["internal"])]
            contents.append(dict(c, metadata=meta))
        return {"contents": contents}
    return handler


def oracle(case):
    from pytezos.context.impl import ExecutionContext
    from pytezos.crypto.key import Key
    from pytezos.operation.group import OperationGroup
    curve = case["curve"]
    key = Key.from_secret_exponent(bytes.fromhex(case["secret"]), curve.encode())
    pkh = key.public_key_hash()
    node = fake_node.FakeNode()
    node.counters[pkh] = case["node_counter"]
    node.run_operation_handler = _sim_handler(case["sim"])
    node.constants.update({k: str(v) for k, v in case.get("constants", {}).items()})
    ctx = ExecutionContext(key=key, shell=fake_node.shell(node))
    blanks = [_blank(c) for c in case["contents"]]
    route = case.get("route")
    try:
        if route in ("bulk-of-autofilled", "bulk-of-filled") and len(blanks) >= 2:
            # every member was priced on its own first (to look at its cost), then the batch is assembled with client.bulk()
            from pytezos.client import PyTezosClient
            members = [OperationGroup(context=ctx, contents=[b]) for b in blanks]
            members = [m.autofill() if route == "bulk-of-autofilled" else m.fill() for m in members]
            opg = PyTezosClient(context=ctx).bulk(*members)
        elif route in ("append-after-autofill", "append-after-fill") and len(blanks) >= 2:
            # a group that was already priced gets one more content and is priced again
            first = OperationGroup(context=ctx, contents=blanks[:-1])
            first = first.autofill() if route == "append-after-autofill" else first.fill()
            opg = first.operation(blanks[-1])
        else:
            opg = OperationGroup(context=ctx, contents=blanks)
    except Exception as e:
        raise Violation("building the group (%s) raised %r" % (route, e), case, "raise:build:%s" % type(e).__name__)
    mode = case["mode"]
    try:
        kw = {k: v for k, v in (("gas_reserve", case.get("gas_reserve")), ("burn_reserve", case.get("burn_reserve"))) if v is not None}
        filled = opg.fill() if mode == "fill" else opg.autofill(**kw)
        signed = filled.sign()
        payload = signed.binary_payload()
    except Exception as e:
        raise Violation("%s()/sign() raised %r for a %s source, kinds %s" % (mode, e, curve, [c["kind"] for c in case["contents"]]),
                        case, "raise:%s:%s" % (mode, type(e).__name__))
    sig_len = 96 if curve == "BL" else 64
    try:
        dec = ref_ops.decode_group(payload[:-sig_len])
    except Exception as e:
        raise Violation("the signed bytes are not a well-formed operation: %r" % (e,), case, "malformed-bytes")
    fees = sum(int(c["fee"]) for c in dec["contents"])
    gas = sum(int(c["gas_limit"]) for c in dec["contents"])
    jfees = sum(int(c["fee"]) for c in signed.contents)
    if jfees != fees:
        raise Violation("fees in the JSON (%d) and in the bytes (%d) differ" % (jfees, fees), case, "json-bytes-mismatch")
    need_nano = 100_000 + 1000 * len(payload) + 100 * gas
    have_nano = fees * 1000
    if have_nano < need_nano:
        short = -(-(need_nano - have_nano) // 1000)
        raise Violation("%s(): total fee %d mutez < node minimum %d.%03d mutez (size %d bytes incl. %d-byte signature, total gas_limit %d, "
                        "%d contents %s, %s source): short by %d mutez" % (
                            mode, fees, need_nano // 1000, need_nano % 1000, len(payload), sig_len, gas, len(dec["contents"]),
                            [c["kind"] for c in dec["contents"]], curve, short), case,
                        "underpaid:%s:%s:%s" % (mode, "batch" if len(dec["contents"]) > 1 else "single", "bls" if curve == "BL" else "64"))
    return fees, need_nano, len(payload), gas


def replay(case):
    oracle(case)


@st.composite
def cases(draw, curves, max_n, big=True):
    curve, sec = draw(gen_keys.curve_and_secret(curves))
    n = draw(st.sampled_from([1, 1, 2, 2, 3, 4, max_n, max_n] + ([draw(st.integers(7, 50))] if big else [])))
    nat = st.one_of(st.integers(0, 300), st.integers(0, 2 ** 20), st.sampled_from([2 ** 32, 2 ** 62, 2 ** 63 - 1]))
    kinds = [k for k in KINDS if not (k == "reveal" and curve == "BL")]
    contents = [draw(gen_ops.manager_content(kinds=kinds, nat=nat)) for _ in range(n)]
    for c in contents:  # fields the client fills in besides the numeric ones: '' = "myself" (baker self-registration)
        if c["kind"] in ("delegation", "origination") and draw(st.integers(0, 2)) == 0:
            c["delegate"] = ""
    sim = [{"milligas": draw(st.one_of(st.integers(0, 5_000_000), st.integers(0, 1_040_000_000), st.sampled_from([0, 999, 1000, 1001, 1_040_000_000]))),
            "storage": draw(st.sampled_from([0, 0, 1, 67, 257, 4000])), "alloc": draw(st.booleans()),
            "internal": draw(st.lists(st.integers(0, 3_000_000), max_size=2))} for _ in range(n)]
    if big and draw(st.integers(0, 3)) == 0:
        # homogeneous batch (airdrop / payout): one operation repeated n times, every simulation consuming the same gas; rounding
        # losses of every content then point the same way (gas limits ending in 9 lose most against the node's rounding up)
        n = draw(st.integers(2, 50))
        c0 = draw(gen_ops.manager_content(kinds=["transaction", "transaction", "delegation", "origination"], nat=nat))
        contents = [dict(c0) for _ in range(n)]
        units = draw(st.integers(0, 4000)) * 10 + draw(st.sampled_from([9, 9, 9, 1, 5, 0, 8]))
        mg = max(0, units * 1000 - draw(st.sampled_from([0, 0, 1, 100, 999])))
        sim = [{"milligas": mg, "storage": draw(st.sampled_from([0, 0, 67])), "alloc": False, "internal": []} for _ in range(n)]
    constants = {}
    if draw(st.integers(0, 2)) == 0:  # protocol constants differ between networks and change with upgrades
        constants = {"hard_gas_limit_per_operation": draw(st.sampled_from([800_000, 1_040_300, 1_300_000, 5_200_000])),
                     "hard_storage_limit_per_operation": draw(st.sampled_from([30_000, 60_000, 120_000]))}
    reserves = {}
    if draw(st.integers(0, 2)) == 0:  # the caller's safety margins for simulated limits (autofill / send take them)
        reserves = {"gas_reserve": draw(st.sampled_from([0, 1, 99, 150, 500, 1111, 5000, 20000])),
                    "burn_reserve": draw(st.sampled_from([None, 0, 1000]))}
    route = None
    if n >= 2 and n <= 6 and draw(st.integers(0, 3)) == 0:
        route = draw(st.sampled_from(["bulk-of-autofilled", "bulk-of-filled", "append-after-autofill", "append-after-fill"]))
    return {"curve": curve, "secret": sec.hex(), "contents": contents, "sim": sim, "mode": draw(st.sampled_from(["fill", "autofill", "autofill"])),
            "route": route,
            "constants": constants, **reserves,
            "node_counter": draw(st.one_of(st.integers(0, 1000), st.sampled_from([127, 128, 2 ** 14 - 1, 2 ** 32, 2 ** 63, 2 ** 64 - 2])))}


def _prop(case, stats):
    fees, need, size, gas = oracle(case)
    big = case["node_counter"] >= 2 ** 32 or any(int(c.get("amount", "0")) >= 2 ** 32 for c in case["contents"])
    nt = len(case["contents"]) >= 2 or case["curve"] == "BL" or big or case.get("gas_reserve") is not None
    if len(case["contents"]) > 6:
        stats.label("batch>6")
    if len(case["contents"]) > 1 and all(x == case["sim"][0] for x in case["sim"]):
        stats.label("homogeneous-batch")
    if case.get("gas_reserve") is not None:
        stats.label("caller-reserves")
    if case.get("route"):
        stats.label("route:" + case["route"])
    stats.case(case, nt, "%s:%s:n=%s" % (case["mode"], case["curve"], "1" if len(case["contents"]) == 1 else "2+"),
               sample={"mode": case["mode"], "curve": case["curve"], "kinds": [c["kind"] for c in case["contents"]],
                       "fee": fees, "minimum_nanotez": need, "size": size, "gas": gas})
    stats.extra["margin_mutez_min"] = 0


@st.composite
def boundary_cases(draw):
    """autofill() cases steered to the place where the fee field itself grows by a byte (16383 -> 16384 mutez): the group is priced
    once to learn its size, then the simulated gas is set so that the node minimum lands within a few mutez of that boundary."""
    case = draw(cases(["ed", "sp", "p2"], 2, big=False))
    case["mode"] = "autofill"
    case.pop("gas_reserve", None), case.pop("burn_reserve", None)
    case["constants"] = {}
    case["aim"] = {"boundary": 16384, "d": draw(st.integers(-14, 4)), "r": draw(st.integers(0, 9)), "which": draw(st.integers(0, 1))}
    return case


def _prop_boundary(case, stats):
    probe = dict(case, sim=[dict(s, milligas=1_000_000, internal=[]) for s in case["sim"]])
    probe.pop("aim")
    fees, need, size, gas = oracle(probe)
    n = len(case["contents"])
    aim = case["aim"]
    # per-content share of the node minimum: 100 + bytes + gas/10; aim the chosen content's own fee at the boundary
    share = size // n + 100
    g = max(200, (aim["boundary"] - share + aim["d"]) * 10 + aim["r"])
    g = min(g, 1_040_000)
    final = dict(probe)
    final["sim"] = [dict(s) for s in probe["sim"]]
    final["sim"][aim["which"] % n]["milligas"] = (g - 100) * 1000
    fees, need, size, gas = oracle(final)
    stats.case(final, True, "fee-field-boundary:%s" % ("at" if 16380 <= fees // max(1, 1) <= 16390 or abs(need // 1000 - 16384) <= 6 else "near"),
               sample={"fee": fees, "minimum_nanotez": need, "size": size, "gas": gas})


def run(h):
    h.run_given(boundary_cases, _prop_boundary, h.n(25, 1500), shards=16, name="fee-boundary")
    h.run_given(lambda: cases(["ed", "sp", "p2"], 6), _prop, h.n(60, 4000), shards=16, name="fast")
    h.run_given(lambda: cases(["BL"], 6, big=False), _prop, h.n(4, 120), shards=16, name="bls", shrink=False)
    h.stats.extra.pop("margin_mutez_min", None)
    h.assumptions.append("the node's rule is the Octez default (minimal_fees 100 mutez, 1000 nanotez per byte, 100 nanotez per gas unit) "
                         "evaluated on the signed bytes; the simulated node is vlib/fake_node.py")
