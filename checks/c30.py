"""C30 — protocol source diffs apply and revert exactly."""
from hypothesis import strategies as st

from vlib.harness import Violation

PID = "C30"
RULE = ("text pairs as line lists over an alphabet with hostile lines ('', ' ', '-', '+', '--- a', '+++ b', "
        "'@@ -1 +1 @@', '\\\\ No newline at end of file', repeated lines, lines containing form feed / VT / CR / NEL / U+2028 and the other "
        "characters str.splitlines() also splits on), 0..14 lines, with/without final newline, "
        "empty texts, built as an edit script (keep/delete/insert/replace) of a common base so hunks are several "
        "and close; context sizes 0..5; protocol level: 1..4 components with .ml/.mli texts. Oracle: "
        "apply_patch(a, make_patch(a,b,n)) == b, apply_patch(b, ..., revert=True) == a, identical -> empty patch, "
        "A.patch(A.diff(B,n)) has B's files. Non-trivial: >=2 hunks, or a text without trailing newline, or a "
        "hostile line is touched by the edit. Distinct = distinct (a, b, n).")

HOSTILE = ["", " ", "-", "+", "--- a", "+++ b", "@@ -1 +1 @@", "\\ No newline at end of file", "@", "\\", "---", "+++",
           "-x", "+x", " x"]
PLAIN = ["x", "y", "let a = 1", "let a = 2", "end", "x"]
# characters that str.splitlines() treats as line boundaries although the line model of a source file is "\n only"
BOUNDARY_CHARS = ["\x0c", "\x0b", "\r", "\x1c", "\x1d", "\x1e", "\x85", "\u2028", "\u2029"]
ODD = ["let a = 1\x0c", "\x0c", "(* page *)\x0c(* break *)", "x\r", "\r", "a\u2028b", "end\x85", "\x0b", "y\x1c", "\x0clet b = 2"]
LINE = st.one_of(st.sampled_from(PLAIN), st.sampled_from(HOSTILE),
                 st.text(alphabet="ab -+@\\\t", min_size=0, max_size=4), st.sampled_from(PLAIN + ODD),
                 st.text(alphabet=["a", " ", "-", "+"] + BOUNDARY_CHARS, min_size=1, max_size=3))


@st.composite
def text_pair(draw, max_lines=14):
    base = draw(st.lists(LINE, min_size=0, max_size=max_lines))
    a, b, touched = [], [], []
    for ln in base:
        op = draw(st.sampled_from(["keep", "keep", "keep", "del", "ins", "rep", "dup"]))
        if op == "keep":
            a.append(ln); b.append(ln)
        elif op == "del":
            a.append(ln); touched.append(ln)
        elif op == "ins":
            new = draw(LINE)
            a.append(ln); b.append(ln); b.append(new); touched.append(new)
        elif op == "rep":
            new = draw(LINE)
            a.append(ln); b.append(new); touched += [ln, new]
        else:
            a.append(ln); b.append(ln); b.append(ln); touched.append(ln)
    if draw(st.integers(0, 5)) == 0:
        extra = draw(st.lists(LINE, min_size=1, max_size=3))
        b = b + extra if draw(st.booleans()) else extra + b
        touched += extra

    def join(lines, nl):
        if not lines:
            return ""
        return "\n".join(lines) + ("\n" if nl else "")
    # a text whose last line is "" and has no trailing newline is indistinguishable from one fewer line + newline;
    # that is a property of the line model, not of the code, and both texts are still valid inputs.
    ta = join(a, draw(st.booleans()))
    tb = join(b, draw(st.booleans()))
    return {"a": ta, "b": tb, "n": draw(st.integers(0, 5)), "touched_hostile": any(t in HOSTILE for t in touched)}


def check_pair(a, b, n, case):
    from pytezos.protocol.diff import apply_patch, make_patch
    try:
        patch = make_patch(a, b, "file.ml", context_size=n)
    except Exception as e:
        raise Violation("make_patch raised %r on a=%r b=%r n=%d" % (e, a, b, n), case, "make-raise")
    if a == b and patch != "":
        raise Violation("identical texts give non-empty patch %r" % patch, case, "nonempty-identical")
    try:
        fwd = apply_patch(a, patch)
    except Exception as e:
        raise Violation("apply_patch raised %r: a=%r b=%r n=%d patch=%r" % (e, a, b, n, patch), case, "apply-raise")
    if fwd != b:
        raise Violation("apply_patch(a, patch) != b: a=%r b=%r n=%d got=%r patch=%r" % (a, b, n, fwd, patch), case,
                        "forward-mismatch")
    try:
        back = apply_patch(b, patch, revert=True)
    except Exception as e:
        raise Violation("apply_patch(revert) raised %r: a=%r b=%r n=%d patch=%r" % (e, a, b, n, patch), case,
                        "revert-raise")
    if back != a:
        raise Violation("apply_patch(b, patch, revert=True) != a: a=%r b=%r n=%d got=%r patch=%r"
                        % (a, b, n, back, patch), case, "revert-mismatch")
    return patch


def oracle(case):
    if "files_a" in case:
        return oracle_proto(case)
    return check_pair(case["a"], case["b"], case["n"], case)


def oracle_proto(case):
    from pytezos.protocol.protocol import Protocol, files_to_proto
    fa = [tuple(x) for x in case["files_a"]]
    fb = [tuple(x) for x in case["files_b"]]
    n = case["n"]
    try:
        A = Protocol(files_to_proto(fa))
        B = Protocol(files_to_proto(fb))
    except Exception as e:  # building the fixtures is not under test
        raise RuntimeError("fixture: %r" % (e,))
    try:
        d = A.diff(B, context_size=n)
        C = A.patch(d)
    except Exception as e:
        raise Violation("Protocol.diff/patch raised %r for files_a=%r files_b=%r" % (e, fa, fb), case,
                        "proto-raise:%s" % type(e).__name__)
    got, want = list(iter(C)), list(iter(B))
    if dict(got) != dict(want) or len(got) != len(want):
        raise Violation("A.patch(A.diff(B,%d)) != B: got %r want %r (A=%r)" % (n, got, want, list(iter(A))), case,
                        "proto-mismatch")
    if got != want:
        raise Violation("A.patch(A.diff(B,%d)) has B's files in another order: got %r want %r" % (
            n, [f for f, _ in got], [f for f, _ in want]), case, "proto-order")
    try:
        hc, hb = C.hash(), B.hash()
    except Exception as e:
        return d  # hashing needs a complete protocol description; not part of the statement
    if hc != hb:
        raise Violation("A.patch(A.diff(B,%d)) hashes to %s, B to %s" % (n, hc, hb), case, "proto-hash")
    return d


def replay(case):
    oracle(case)


def _prop_text(case, stats):
    patch = oracle(case)
    hunks = sum(1 for l in patch.splitlines() if l.startswith("@@ -"))  # header lines always start a hunk line
    # (content lines are prefixed with a sign, so only real headers start with '@@ -')
    no_nl = (case["a"] != "" and not case["a"].endswith("\n")) or (case["b"] != "" and not case["b"].endswith("\n"))
    nt = case["a"] != case["b"] and (hunks >= 2 or no_nl or case["touched_hostile"])
    label = "identical" if case["a"] == case["b"] else ("hunks>=2" if hunks >= 2 else "hunks=1")
    stats.case({k: case[k] for k in ("a", "b", "n")}, nt, label, sample={k: case[k] for k in ("a", "b", "n")})
    if no_nl:
        stats.label("no-trailing-newline")
    if case["touched_hostile"]:
        stats.label("hostile-line-touched")
    if case["a"] == "" or case["b"] == "":
        stats.label("empty-text")


@st.composite
def proto_pair(draw):
    names = draw(st.lists(st.sampled_from(["alpha", "b_mod", "storage", "main"]), min_size=1, max_size=4, unique=True))
    fa, fb = [], []
    for nm in names:
        for ext in ("mli", "ml"):
            if ext == "mli" and draw(st.integers(0, 2)) == 0:
                continue
            p = draw(text_pair(max_lines=8))
            where = draw(st.sampled_from(["both", "both", "both", "both", "only-b", "only-a"]))
            if where != "only-b":
                fa.append(("%s.%s" % (nm, ext), p["a"]))
            if where != "only-a":
                fb.append(("%s.%s" % (nm, ext), p["b"]))
    if draw(st.integers(0, 2)) == 0:  # the second protocol lists its modules in another order
        fb = draw(st.permutations(fb))
    if not fa:
        fa.append(("zz.ml", "x\n"))
    if not fb and draw(st.booleans()):
        fb.append(("yy.ml", "y\n"))
    return {"files_a": fa, "files_b": fb, "n": draw(st.integers(0, 5))}


def _prop_proto(case, stats):
    oracle(case)
    changed = sum(1 for (n1, t1) in case["files_b"] if dict(case["files_a"]).get(n1, "") != t1)
    stats.case(case, changed >= 1, "protocol-files=%d" % min(len(case["files_b"]), 4),
               sample={"a": case["files_a"][:2], "b": case["files_b"][:2], "n": case["n"]})


def run(h):
    h.run_given(text_pair, _prop_text, h.n(1500, 30000), shards=8 if h.quick else 16, name="texts")
    h.run_given(proto_pair, _prop_proto, h.n(150, 3000), shards=4 if h.quick else 16, name="protocols")
