"""C28 — multi-node clients rotate through nodes regardless of failures."""
import itertools

import requests

from vlib import fake_http
from vlib.harness import Violation

PID = "C28"
LEVEL = "fault_enumeration"
RULE = ("every outcome sequence of length L (L=6 quick, 8 thorough; all shorter histories are prefixes) over "
        "{ok, 404, 500-permanent, connection exception, transient-500-then-ok} for 1..4 nodes, verbs cycled; "
        "oracle: the i-th request made on the multi-node client goes to node i mod n (retries of one request "
        "stay on its node); plus hypothesis-sampled sequences of length <=12 with more failure kinds (read timeout, "
        "non-list JSON error body, 401, arbitrary exception from the transport) and request styles (verb helpers, raw request, "
        "stream=True, params, timeout, from a second thread, after displaying the client object) and node lists that name one endpoint several times; plus several clients obtained through the `<network>.pool` alias of one registered "
        "network and used in turn (each rotates on its own). Non-trivial: a failure is followed by another request and n>=2. Distinct = (n, sequence).")

J = "application/json"
OUTCOMES = ["ok", "404", "500", "exc", "retry-ok"]
# sampled part: more failure kinds and request styles (the way the request is issued must not matter either)
MORE_OUTCOMES = OUTCOMES + ["read-timeout", "bad-json-error", "401", "runtime-error"]
STYLES = ["verb", "verb", "stream", "params", "timeout", "raw-request", "thread", "shown", "shown"]
URIS = ["http://a:1", "http://b:2", "http://c:3", "http://d:4"]
VERBS = ["get", "post", "put", "delete"]


def oracle(case):
    from pytezos.rpc.node import RpcError, RpcMultiNode
    n, seq = case["n"], case["seq"]
    plan = []  # flattened HTTP-level plan
    for o in seq:
        if o == "retry-ok":
            plan += [("t", o), ("ok", o)]
        else:
            plan.append((o, o))
    pos = {"i": 0}
    state = {"req": 0, "sub": 0}

    def responder(i, method, url):
        o = seq[state["req"]]
        if o == "ok":
            return fake_http.make_response(200, b'{"x":1}', J)
        if o == "404":
            return fake_http.make_response(404, b'not found', "text/plain")
        if o == "500":
            return fake_http.make_response(500, b'[{"kind":"permanent","id":"node.bad"}]', J)
        if o == "exc":
            return requests.exceptions.ConnectionError("refused")
        if o == "read-timeout":
            return requests.exceptions.ReadTimeout("slow")
        if o == "runtime-error":
            return RuntimeError("socket layer")
        if o == "401":
            return fake_http.make_response(401, b'[]', J)
        if o == "bad-json-error":  # a 500 whose JSON body is not an error list
            return fake_http.make_response(500, b'{"error":"x"}', J)
        if state["sub"] == 0:
            state["sub"] = 1
            return fake_http.make_response(500, b'[{"kind":"temporary","id":"node.busy"}]', J)
        return fake_http.make_response(200, b'{"x":2}', J)

    script = fake_http.Script(responder)
    uris = case.get("uris") or URIS[:n]   # a configured list may name one endpoint several times (weights)
    n = len(uris)
    # (a pool of one node may also be given as a plain string, which the constructor accepts)
    node = RpcMultiNode(uris[0] if case.get("as_string") and n == 1 else list(uris))
    with fake_http.patched(script):
        for i, o in enumerate(seq):
            state["req"], state["sub"] = i, 0
            before = len(script.calls)
            verb = VERBS[i % 4]
            style = (case.get("styles") or ["verb"] * len(seq))[i]
            path = "chains/main/blocks/head"
            try:
                if style == "thread":  # the same client object used from another (joined) thread: still the client's i-th request
                    import threading
                    box = {}

                    def work():
                        try:
                            box["r"] = getattr(node, verb)(path)
                        except BaseException as ex:  # noqa: B036
                            box["e"] = ex
                    th = threading.Thread(target=work)
                    th.start()
                    th.join()
                    if "e" in box:
                        raise box["e"]
                elif style == "shown":   # the client object is displayed / logged before the request (repr, str, f-string)
                    repr(node), str(node), "%s %r" % (node, node)
                    getattr(node, verb)(path)
                elif style == "stream":
                    node.request("GET", path, stream=True)
                elif style == "params":
                    node.get(path, params={"a": "1"})
                elif style == "timeout":
                    node.get(path, timeout=3)
                elif style == "raw-request":
                    node.request(verb.upper(), path)
                else:
                    getattr(node, verb)(path)
                failed = False
            except (RpcError, requests.exceptions.ConnectionError):
                failed = True
            except Exception as e:
                if o not in ("read-timeout", "bad-json-error", "runtime-error"):
                    raise Violation("request %d (%s) raised %r" % (i, o, e), case, "unexpected-exception")
                failed = True
            if failed != (o in ("404", "500", "exc", "read-timeout", "bad-json-error", "401", "runtime-error")):
                raise Violation("request %d outcome %s: failed=%s" % (i, o, failed), case, "outcome")
            urls = [c["url"] for c in script.calls[before:]]
            want = uris[i % n]
            if not urls or any(not u.startswith(want + "/") for u in urls):
                raise Violation("n=%d request #%d after outcomes %s went to %s, expected node %s"
                                % (n, i, seq[:i], urls, want), case, "wrong-node")


def oracle_alias(case):
    """Several clients obtained through the `<network>.pool` alias of one registered network, used in turn: each of them is a
    multi-node client of its own, so the i-th request of EACH client goes to node i mod n."""
    from pytezos import pytezos
    from pytezos.context import mixin
    from pytezos.rpc.node import RpcError
    n = case["n"]
    uris = URIS[:n]
    saved = mixin.nodes.get("verifnet")
    mixin.nodes["verifnet"] = list(uris)

    def responder(i, method, url):
        o = case["ops"][state["k"]][1]
        if o == "ok":
            return fake_http.make_response(200, b'{"x":1}', J)
        if o == "404":
            return fake_http.make_response(404, b'not found', "text/plain")
        return requests.exceptions.ConnectionError("refused")
    state = {"k": 0}
    script = fake_http.Script(responder)
    clients, counts = {}, {}
    try:
        with fake_http.patched(script):
            for k, (c, o) in enumerate(case["ops"]):
                state["k"] = k
                if c not in clients:
                    clients[c] = pytezos.using(shell="verifnet.pool")
                    counts[c] = 0
                before = len(script.calls)
                try:
                    clients[c].shell.node.get("chains/main/blocks/head")
                except (RpcError, requests.exceptions.ConnectionError):
                    pass
                urls = [x["url"] for x in script.calls[before:]]
                want = uris[counts[c] % n]
                if not urls or any(not u.startswith(want + "/") for u in urls):
                    raise Violation("n=%d: request #%d of client %d (clients created through the pool alias, history %s) went to %s, "
                                    "expected node %s" % (n, counts[c], c, case["ops"][:k], urls, want), case, "wrong-node:alias-clients")
                counts[c] += 1
    finally:
        if saved is None:
            mixin.nodes.pop("verifnet", None)
        else:
            mixin.nodes["verifnet"] = saved


def replay(case):
    if "ops" in case:
        return oracle_alias(case)
    oracle(case)


def _prop_alias(case, stats):
    oracle_alias(case)
    stats.case(case, case["n"] >= 2 and len({c for c, _ in case["ops"]}) >= 2, "alias-clients:n=%d" % case["n"], sample=case)


def _prop(case, stats):
    oracle(case)
    seq = case["seq"]
    nt = case["n"] >= 2 and any(o not in ("ok", "retry-ok") for o in seq[:-1])
    stats.case(case, nt, ("styled:" if case.get("styles") else "") + "n=%d" % case["n"], sample=case)


def run(h):
    L = 6 if h.quick else 8
    items = [{"n": n, "seq": list(s)} for n in (1, 2, 3, 4) for s in itertools.product(OUTCOMES, repeat=L)]
    items += [{"n": 1, "seq": list(s), "as_string": True} for s in itertools.product(OUTCOMES, repeat=4)]
    h.exhaustive = True
    h.coverage_extra["exhaustive_subdomain"] = "all outcome sequences of length <=%d over 5 outcomes, 1..4 nodes" % L
    h.run_enum(items, _prop, shards=16)
    from hypothesis import strategies as st
    uri_lists = st.one_of(st.none(), st.none(), st.lists(st.sampled_from(URIS[:3]), min_size=2, max_size=5))
    styled = st.integers(1, 12).flatmap(lambda k: st.fixed_dictionaries({
        "n": st.integers(1, 4), "seq": st.lists(st.sampled_from(MORE_OUTCOMES), min_size=k, max_size=k),
        "styles": st.lists(st.sampled_from(STYLES), min_size=k, max_size=k), "uris": uri_lists}))
    h.run_given(lambda: styled, _prop, h.n(150, 3000), shards=16, name="styled")
    alias = st.fixed_dictionaries({"n": st.integers(1, 4), "ops": st.lists(st.tuples(st.integers(0, 2), st.sampled_from(["ok", "ok", "404", "exc"])),
                                                                             min_size=2, max_size=12).map(lambda l: [list(x) for x in l])})
    h.run_given(lambda: alias, _prop_alias, h.n(40, 1500), shards=16, name="alias-clients")
