"""C04 thorough: atheris campaign on UNPACK with oracle (c) inside the target."""
from vlib import fuzz
from vlib import ref_values as rv
from vlib.ref_values import T

TYPES = [T("int"), T("nat"), T("string"), T("bytes"), T("key_hash"), T("address"), T("option", T("int")),
         rv.pair_t(T("int"), T("nat"), T("string"), T("bytes")), T("list", T("int")), T("map", T("nat"), T("string")),
         T("or", T("key_hash"), T("timestamp")), T("lambda", T("unit"), T("unit")), T("pair", T("nat"), T("key_hash"))]


def _case(data):
    t = TYPES[data[0] % len(TYPES)] if data else TYPES[0]
    return {"mode": "bytes", "t": t, "data": data[1:].hex(), "mut": "atheris"}


def fuzz_one(data):
    from checks import c04
    case = _case(data)
    try:
        reason = c04.check_bytes(case)
    except c04.Violation as v:
        v.case = case
        raise
    return (reason is not None and reason != "prefix"), (reason or "ref-accepts")


def campaign(h):
    from checks import c04
    samples = [(T("int"), 0), (T("int"), -2 ** 70), (T("string"), "abc"), (T("key_hash"), b"\x00" + b"\x00" * 20),
               (rv.pair_t(T("int"), T("nat"), T("string"), T("bytes")), (1, (2, ("x", b"\x01")))),
               (T("list", T("int")), [1, 2, 3]), (T("option", T("int")), ("Some", 5))]
    corpus = []
    for t, v in samples:
        corpus.append(bytes([TYPES.index(t)]) + rv.pack(t, v))

    def reval(data):
        c04.check_bytes(_case(data))

    fuzz.campaign(h, "c04_fuzz", corpus, runs=300_000, max_len=128, revalidate=reval)
