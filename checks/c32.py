"""C32 — view definitions are accepted exactly when Tezos accepts them."""
import re

from hypothesis import strategies as st

from vlib.harness import Violation

PID = "C32"
RULE = ("view = (name, code tree). Names: length 0..40 over [A-Za-z0-9_.%@] plus forbidden characters (space ! - / "
        "\" é), boundary lengths 30/31/32/33 over-weighted. Code trees are built by a constructor that knows where "
        "lambda bodies are: SELF / TRANSFER_TOKENS / CREATE_CONTRACT / SET_DELEGATE placed at depth 0..4 inside "
        "IF/IF_NONE/IF_LEFT/IF_CONS/DIP/DIP n/ITER/MAP/LOOP/LOOP_LEFT/bare sequences, and inside or outside LAMBDA, "
        "LAMBDA_REC and pushed lambda literals (bare, or nested in Pair/Some/Left/Right/list/Elt literals); every other "
        "node is a registered primitive with correct arity. Oracle: constructor's verdict (reject iff name >31 or bad "
        "char, or SELF anywhere, or restricted instr outside every lambda body) == ViewSection.match raises. "
        "Non-trivial: tree contains a restricted instruction or the name is at a boundary/has a special character. "
        "Distinct = distinct (name, code).")

NAME_OK = re.compile(r"\A[A-Za-z0-9_.%@]*\Z")  # \Z, not $: "$" also matches before a trailing newline
RESTRICTED = ["TRANSFER_TOKENS", "CREATE_CONTRACT", "SET_DELEGATE"]
PLAIN = ["DROP", "DUP", "SWAP", "UNIT", "NOW", "AMOUNT", "SENDER", "PAIR", "CAR", "SELF_ADDRESS", "FAILWITH"]
UNIT = {"prim": "unit"}
LAM_T = {"prim": "lambda", "args": [UNIT, UNIT]}
INNER_SCRIPT = [{"prim": "parameter", "args": [UNIT]}, {"prim": "storage", "args": [UNIT]},
                {"prim": "code", "args": [[{"prim": "CDR"}, {"prim": "NIL", "args": [{"prim": "operation"}]},
                                           {"prim": "PAIR"}]]}]


def _inner(code):
    return [{"prim": "parameter", "args": [UNIT]}, {"prim": "storage", "args": [UNIT]}, {"prim": "code", "args": [code]}]


# scripts of originated contracts: they are contracts of their own and may use the instructions a view may not (SELF is left out:
# the statement's "SELF anywhere" is not refined for nested scripts)
INNER_SCRIPTS = [
    INNER_SCRIPT,
    _inner([{"prim": "DROP"}, {"prim": "NONE", "args": [{"prim": "key_hash"}]}, {"prim": "SET_DELEGATE"}, {"prim": "NIL", "args": [{"prim": "operation"}]},
            {"prim": "SWAP"}, {"prim": "CONS"}, {"prim": "UNIT"}, {"prim": "SWAP"}, {"prim": "PAIR"}]),
    _inner([{"prim": "CDR"}, {"prim": "NIL", "args": [{"prim": "operation"}]}, {"prim": "SENDER"}, {"prim": "CONTRACT", "args": [UNIT]},
            {"prim": "IF_NONE", "args": [[], [{"prim": "AMOUNT"}, {"prim": "UNIT"}, {"prim": "TRANSFER_TOKENS"}, {"prim": "CONS"}]]}, {"prim": "PAIR"}]),
    _inner([{"prim": "CDR"}, {"prim": "UNIT"}, {"prim": "AMOUNT"}, {"prim": "NONE", "args": [{"prim": "key_hash"}]},
            {"prim": "CREATE_CONTRACT", "args": [INNER_SCRIPT]}, {"prim": "DROP"}, {"prim": "NIL", "args": [{"prim": "operation"}]}, {"prim": "SWAP"},
            {"prim": "CONS"}, {"prim": "PAIR"}]),
]


def instr(name, variant=0):
    if name == "CREATE_CONTRACT":
        return {"prim": name, "args": [INNER_SCRIPTS[variant % len(INNER_SCRIPTS)]]}
    if name == "SELF%":
        return {"prim": "SELF", "annots": ["%foo"]}
    return {"prim": name}


@st.composite
def seq(draw, depth):
    n = draw(st.integers(0, 3 if depth else 4))
    return [draw(node(depth)) for _ in range(n)]


@st.composite
def node(draw, depth):
    kind = draw(st.sampled_from(["plain", "plain", "restricted", "self", "block", "block", "lambda"]))
    if depth <= 0 and kind in ("block", "lambda"):
        kind = "plain"
    if kind == "plain":
        return instr(draw(st.sampled_from(PLAIN)))
    if kind == "restricted":
        return instr(draw(st.sampled_from(RESTRICTED)), draw(st.integers(0, 3)))
    if kind == "self":
        if draw(st.integers(0, 2)) == 0:
            return instr(draw(st.sampled_from(["SELF", "SELF%"])))
        return instr(draw(st.sampled_from(PLAIN)))
    if kind == "block":
        b = draw(st.sampled_from(["IF", "IF_NONE", "IF_LEFT", "IF_CONS", "DIP", "DIPn", "ITER", "MAP", "LOOP",
                                  "LOOP_LEFT", "seq"]))
        if b in ("IF", "IF_NONE", "IF_LEFT", "IF_CONS"):
            return {"prim": b, "args": [draw(seq(depth - 1)), draw(seq(depth - 1))]}
        if b == "DIPn":
            return {"prim": "DIP", "args": [{"int": str(draw(st.integers(0, 3)))}, draw(seq(depth - 1))]}
        if b == "seq":
            return draw(seq(depth - 1))
        return {"prim": b, "args": [draw(seq(depth - 1))]}
    # lambda contexts
    body = draw(seq(depth - 1))
    form = draw(st.sampled_from(["LAMBDA", "LAMBDA_REC", "PUSH", "PUSH-pair", "PUSH-some", "PUSH-left", "PUSH-right",
                                 "PUSH-list", "PUSH-map", "PUSH-deep", "PUSH-deep"]))
    if form == "PUSH-deep":   # the lambda sits two or more constructors below the pushed type
        INT = {"prim": "int"}
        one = {"int": "1"}
        t, v = draw(st.sampled_from([
            ({"prim": "pair", "args": [INT, INT, LAM_T]}, lambda b: {"prim": "Pair", "args": [one, one, b]}),
            ({"prim": "pair", "args": [INT, {"prim": "pair", "args": [INT, LAM_T]}]}, lambda b: {"prim": "Pair", "args": [one, {"prim": "Pair", "args": [one, b]}]}),
            ({"prim": "pair", "args": [INT, INT, INT, LAM_T]}, lambda b: [one, one, one, b]),
            ({"prim": "option", "args": [{"prim": "option", "args": [LAM_T]}]}, lambda b: {"prim": "Some", "args": [{"prim": "Some", "args": [b]}]}),
            ({"prim": "list", "args": [{"prim": "option", "args": [LAM_T]}]}, lambda b: [{"prim": "None"}, {"prim": "Some", "args": [b]}]),
            ({"prim": "map", "args": [INT, {"prim": "pair", "args": [INT, LAM_T]}]}, lambda b: [{"prim": "Elt", "args": [one, {"prim": "Pair", "args": [one, b]}]}]),
            ({"prim": "or", "args": [UNIT, {"prim": "or", "args": [LAM_T, UNIT]}]}, lambda b: {"prim": "Right", "args": [{"prim": "Left", "args": [b]}]}),
            ({"prim": "list", "args": [{"prim": "list", "args": [LAM_T]}]}, lambda b: [[b], []]),
        ]))
        return {"prim": "PUSH", "args": [t, v(body)]}
    if form in ("LAMBDA", "LAMBDA_REC"):
        return {"prim": form, "args": [UNIT, UNIT, body]}
    if form == "PUSH":
        return {"prim": "PUSH", "args": [LAM_T, body]}
    if form == "PUSH-pair":
        return {"prim": "PUSH", "args": [{"prim": "pair", "args": [LAM_T, {"prim": "int"}]},
                                         {"prim": "Pair", "args": [body, {"int": "1"}]}]}
    if form == "PUSH-some":
        return {"prim": "PUSH", "args": [{"prim": "option", "args": [LAM_T]}, {"prim": "Some", "args": [body]}]}
    if form == "PUSH-left":
        return {"prim": "PUSH", "args": [{"prim": "or", "args": [LAM_T, UNIT]}, {"prim": "Left", "args": [body]}]}
    if form == "PUSH-right":
        return {"prim": "PUSH", "args": [{"prim": "or", "args": [UNIT, LAM_T]}, {"prim": "Right", "args": [body]}]}
    if form == "PUSH-list":
        return {"prim": "PUSH", "args": [{"prim": "list", "args": [LAM_T]}, [body, draw(seq(depth - 1))]]}
    return {"prim": "PUSH", "args": [{"prim": "map", "args": [{"prim": "int"}, LAM_T]},
                                     [{"prim": "Elt", "args": [{"int": "1"}, body]}]]}


def scan(code, in_lambda=False, acc=None):
    """Reference walk: returns list of (prim, in_lambda, context) for SELF and restricted instructions."""
    acc = [] if acc is None else acc
    if isinstance(code, list):
        for c in code:
            scan(c, in_lambda, acc)
        return acc
    if not isinstance(code, dict) or "prim" not in code:
        return acc
    p = code["prim"]
    if p == "SELF":
        acc.append(("SELF", in_lambda))
    elif p in RESTRICTED:
        acc.append((p, in_lambda))
        return acc  # CREATE_CONTRACT's own script is a separate contract, not view code
    args = code.get("args", [])
    if p in ("LAMBDA", "LAMBDA_REC"):
        scan(args[2], True, acc)
    elif p == "PUSH":
        scan(args[1], True, acc)  # any code inside pushed data is a lambda literal body
    else:
        for a in args:
            scan(a, in_lambda, acc)
    return acc


def verdict(name, code):
    reasons = []
    if len(name) > 31:
        reasons.append("name-too-long")
    if not NAME_OK.match(name):
        reasons.append("name-bad-char")
    for p, lam in scan(code):
        if p == "SELF":
            reasons.append("SELF" + ("-in-lambda" if lam else ""))
        elif not lam:
            reasons.append(p + "-outside-lambda")
    return reasons


def oracle(case):
    from pytezos.michelson.sections.view import ViewSection
    import pytezos.michelson.instructions  # noqa: F401
    import pytezos.michelson.types  # noqa: F401
    name, code = case["name"], case["code"]
    expr = {"prim": "view", "args": [{"string": name}, UNIT, UNIT, code]}
    reasons = verdict(name, code)
    try:
        ViewSection.match(expr)
        rejected, err = False, None
    except Exception as e:
        rejected, err = True, e
    if rejected and not reasons:
        allowed = sorted({"%s-in-lambda" % p for p, lam in scan(code) if lam})
        raise Violation("valid view rejected (name=%r, restricted-in-lambda=%s): %s" % (name, allowed, err.args[-1:]),
                        case, "valid-rejected:" + (",".join(allowed) or "name"))
    if not rejected and reasons:
        raise Violation("invalid view accepted: name=%r reasons=%s" % (name, sorted(set(reasons))), case,
                        "invalid-accepted:" + ",".join(sorted(set(r.split("-")[0] if r.startswith("name") is False
                                                                   else r for r in reasons))))
    return reasons


def replay(case):
    oracle(case)


OKCH = "abzAZ059_.%@"
BADCH = " !-/\"é#\n\t\r\x00\u00a0\u0660$+:"


@st.composite
def names(draw):
    mode = draw(st.integers(0, 5))
    if mode == 0:
        n = draw(st.sampled_from([30, 31, 32, 33]))
    else:
        n = draw(st.integers(0, 40))
    chars = [draw(st.sampled_from(OKCH)) for _ in range(n)]
    if mode in (1, 2) and n:
        # one forbidden character; first and last positions are as likely as all the inner ones together
        pos = draw(st.sampled_from([0, n - 1, n - 1, draw(st.integers(0, n - 1))]))
        chars[pos] = draw(st.sampled_from(BADCH))
    return "".join(chars)


@st.composite
def cases(draw):
    name = draw(names()) if draw(st.integers(0, 2)) else draw(st.sampled_from(["get", "v", "a" * 31]))
    return {"name": name, "code": draw(seq(draw(st.integers(0, 4))))}


def _prop(case, stats):
    reasons = oracle(case)
    found = scan(case["code"])
    name = case["name"]
    nt = bool(found) or len(name) in (30, 31, 32, 33) or not NAME_OK.match(name) or any(c in "%@." for c in name)
    label = "accept" if not reasons else "reject"
    stats.case(case, nt, label, sample={"name": name, "restricted": found[:4], "verdict": reasons[:3]})
    for p, lam in found:
        stats.label("%s %s" % (p, "in-lambda" if lam else "outside"))


def run(h):
    h.run_given(cases, _prop, h.n(400, 8000), shards=8 if h.quick else 16)
