"""C06 — local operation forging matches the Tezos operation binary format."""
import copy

from hypothesis import strategies as st

from vlib import gen_ops, ref_ops, selfcheck
from vlib.harness import Violation

PID = "C06"
RULE = ("operation groups of 1..4 (quick) / 1..8 (thorough) contents of every current-protocol kind; sources tz1-tz4; "
        "destinations tz1-tz4/KT1/sr1 over 20-byte hashes with special first/last bytes; the ten reserved "
        "entrypoints and named ones (1..31 chars); parameters = Micheline trees; fee/counter/limits/amounts from "
        "{0,1,127,128,2^14+-1,2^63+-1,2^64,..2^200}; optional delegate, scripts, ticket fields, rollup messages, "
        "failing_noop, activate_account. Oracle: forged bytes == reference encoder (written from the protocol "
        "schema), strict reference decode of the forged bytes == normalised group (=> injective), tag table equal; an object tier "
        "forges through OperationGroup.forge(), edits the same object (fee, appended content, branch, operation()) and forges "
        "again: the bytes must always encode the group as it stands. "
        "Non-trivial: >=2 contents, or non-default entrypoint, or a numeric field >= 2^14. Distinct = distinct group.")


def oracle(case):
    from pytezos.operation.forge import forge_operation_group
    g = case["group"]
    arg = copy.deepcopy(g)
    try:
        got = forge_operation_group(arg)
    except Exception as e:
        raise Violation("forge_operation_group raised %r on %r" % (e, g), case, "forge-raise:%s" % _kinds(g))
    want = ref_ops.encode_group(g)
    if got != want:
        i = next((i for i, (a, b) in enumerate(zip(got, want)) if a != b), min(len(got), len(want)))
        raise Violation("forged bytes differ from the protocol encoding at offset %d: got …%s want …%s; group %r"
                        % (i, got[max(0, i - 4):i + 12].hex(), want[max(0, i - 4):i + 12].hex(), g), case,
                        "encode-mismatch:%s" % _blame(g, got, want))
    try:
        back = ref_ops.decode_group(got)
    except ref_ops.OpDecodeError as e:
        raise Violation("forged bytes are not decodable by the protocol schema: %s; group %r" % (e, g), case,
                        "undecodable")
    if ref_ops.normalize_group(back) != ref_ops.normalize_group(g):
        raise Violation("decode(forge(g)) != g: %r vs %r" % (back, g), case, "roundtrip")
    check_group_object(case, g)


def check_group_object(case, g):
    """The same bytes through OperationGroup.forge(), also after the group object has been forged once and then edited
    (contents and branch are public and the library itself rewrites them in place)."""
    from pytezos.context.impl import ExecutionContext
    from pytezos.operation.group import OperationGroup
    muts = case.get("mutations") or []
    if not muts and not case.get("object"):
        return
    cur = copy.deepcopy(g)
    opg = OperationGroup(context=ExecutionContext(), contents=copy.deepcopy(cur["contents"]), branch=cur["branch"])
    for step, mut in enumerate([None] + muts):
        if mut is not None:
            if mut["op"] == "fee" and "fee" in cur["contents"][0]:
                cur["contents"][0]["fee"] = opg.contents[0]["fee"] = str(int(cur["contents"][0]["fee"]) + mut["by"])
            elif mut["op"] == "append":
                cur["contents"].append(copy.deepcopy(mut["content"]))
                opg.contents.append(copy.deepcopy(mut["content"]))
            elif mut["op"] == "branch":
                cur["branch"] = opg.branch = mut["branch"]
            elif mut["op"] == "spawn":
                cur["contents"].append(copy.deepcopy(mut["content"]))
                opg = opg.operation(copy.deepcopy(mut["content"]))
            else:
                continue
        try:
            got = bytes.fromhex(opg.forge())
        except Exception as e:
            raise Violation("OperationGroup.forge() raised %r after %s" % (e, [m["op"] for m in muts[:step]]), case, "object-forge-raise")
        want = ref_ops.encode_group(cur)
        if got != want:
            raise Violation("OperationGroup.forge() after the edits %s returns bytes that are not the encoding of the group as it "
                            "stands (decoded fee/contents/branch: %s)" % ([m["op"] for m in muts[:step]], _decoded_brief(got)), case,
                            "object-forge-stale" if step else "object-forge-mismatch")


def _decoded_brief(b):
    try:
        d = ref_ops.decode_group(b)
        return {"branch": d["branch"][:8], "n": len(d["contents"]), "fee0": d["contents"][0].get("fee")}
    except Exception as e:
        return "undecodable: %s" % e


def _kinds(g):
    return "+".join(sorted({c["kind"] for c in g["contents"]}))


def _blame(g, got, want):
    for c in g["contents"]:
        p = c.get("parameters")
        if p and p["entrypoint"] in ref_ops.ENTRYPOINTS[6:]:
            return "entrypoint-tag-6-9"
    return _kinds(g)


def check_table(case):
    from pytezos.rpc.kind import operation_tags
    for k, t in ref_ops.TAGS.items():
        if operation_tags.get(k) != t:
            raise Violation("operation tag of %s is %r, protocol tag %d" % (k, operation_tags.get(k), t), case,
                            "tag-table:" + k)


def replay(case):
    if case.get("mode") == "table":
        return check_table(case)
    oracle(case)


def _prop(case, stats):
    oracle(case)
    g = case["group"]
    big = any(int(c.get(f, 0)) >= 2 ** 14 for c in g["contents"]
              for f in ("fee", "counter", "gas_limit", "storage_limit", "amount", "balance", "ticket_amount"))
    ep = any(c.get("parameters", {}).get("entrypoint", "default") != "default" for c in g["contents"])
    stats.case(case, len(g["contents"]) >= 2 or big or ep, "n=%d" % min(len(g["contents"]), 4),
               sample={"kinds": [c["kind"] for c in g["contents"]],
                       "first": {k: (v if len(str(v)) < 60 else str(v)[:60] + "…") for k, v in g["contents"][0].items()}})
    for c in g["contents"]:
        stats.label("kind:" + c["kind"])
        p = c.get("parameters")
        if p:
            stats.label("entrypoint:" + (p["entrypoint"] if p["entrypoint"] in ref_ops.ENTRYPOINTS else "named"))


def run(h):
    n = selfcheck.ref_ops_vectors()
    h.coverage_extra["reference_validated"] = "reference codec reproduces the hashes of %d recorded groups" % n
    h.assumptions.append("reveal 'proof' field layout (presence byte + dynamic BLS signature) mirrors the current "
                         "protocol as implemented; not re-derived independently")
    h.run_enum([{"mode": "table"}], lambda c, s: (check_table(c), s.case(c, True, "table"))[1], shards=1)
    mc = 4 if h.quick else 8
    h.run_given(lambda: st.builds(lambda g: {"group": g}, gen_ops.group(mc)), _prop, h.n(300, 20000),
                shards=8 if h.quick else 16)
    h.run_given(lambda: object_cases(mc), _prop, h.n(120, 6000), shards=8 if h.quick else 16, name="objects")


@st.composite
def object_cases(draw, mc):
    g = draw(gen_ops.group(min(mc, 3)))
    muts = []
    for _ in range(draw(st.integers(0, 3))):
        op = draw(st.sampled_from(["fee", "append", "branch", "spawn"]))
        m = {"op": op}
        if op == "fee":
            m["by"] = draw(st.sampled_from([1, 127, 1217, 2 ** 14]))
        elif op in ("append", "spawn"):
            m["content"] = draw(gen_ops.manager_content())
        else:
            m["branch"] = draw(gen_ops.branch())
        muts.append(m)
    return {"group": g, "mutations": muts, "object": True}
