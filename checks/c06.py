"""C06 — local operation forging matches the Tezos operation binary format."""
import copy

from hypothesis import strategies as st

from vlib import gen_ops, ref_ops, selfcheck
from vlib.harness import Violation

PID = "C06"
RULE = ("operation groups of 1..4 (quick) / 1..8 (thorough) contents of every current-protocol kind; sources tz1-tz4; "
        "destinations tz1-tz4/KT1/sr1 over 20-byte hashes with special first/last bytes; the ten reserved "
        "entrypoints and named ones (1..31 chars); parameters = Micheline trees; fee/counter/limits/amounts from "
        "{0,1,127,128,2^14+-1,2^63+-1,2^64,..2^200}; optional delegate, scripts, ticket fields, rollup messages, "
        "failing_noop, activate_account. Oracle: forged bytes == reference encoder (written from the protocol "
        "schema), strict reference decode of the forged bytes == normalised group (=> injective), tag table equal. "
        "Non-trivial: >=2 contents, or non-default entrypoint, or a numeric field >= 2^14. Distinct = distinct group.")


def oracle(case):
    from pytezos.operation.forge import forge_operation_group
    g = case["group"]
    arg = copy.deepcopy(g)
    try:
        got = forge_operation_group(arg)
    except Exception as e:
        raise Violation("forge_operation_group raised %r on %r" % (e, g), case, "forge-raise:%s" % _kinds(g))
    want = ref_ops.encode_group(g)
    if got != want:
        i = next((i for i, (a, b) in enumerate(zip(got, want)) if a != b), min(len(got), len(want)))
        raise Violation("forged bytes differ from the protocol encoding at offset %d: got …%s want …%s; group %r"
                        % (i, got[max(0, i - 4):i + 12].hex(), want[max(0, i - 4):i + 12].hex(), g), case,
                        "encode-mismatch:%s" % _blame(g, got, want))
    try:
        back = ref_ops.decode_group(got)
    except ref_ops.OpDecodeError as e:
        raise Violation("forged bytes are not decodable by the protocol schema: %s; group %r" % (e, g), case,
                        "undecodable")
    if ref_ops.normalize_group(back) != ref_ops.normalize_group(g):
        raise Violation("decode(forge(g)) != g: %r vs %r" % (back, g), case, "roundtrip")


def _kinds(g):
    return "+".join(sorted({c["kind"] for c in g["contents"]}))


def _blame(g, got, want):
    for c in g["contents"]:
        p = c.get("parameters")
        if p and p["entrypoint"] in ref_ops.ENTRYPOINTS[6:]:
            return "entrypoint-tag-6-9"
    return _kinds(g)


def check_table(case):
    from pytezos.rpc.kind import operation_tags
    for k, t in ref_ops.TAGS.items():
        if operation_tags.get(k) != t:
            raise Violation("operation tag of %s is %r, protocol tag %d" % (k, operation_tags.get(k), t), case,
                            "tag-table:" + k)


def replay(case):
    if case.get("mode") == "table":
        return check_table(case)
    oracle(case)


def _prop(case, stats):
    oracle(case)
    g = case["group"]
    big = any(int(c.get(f, 0)) >= 2 ** 14 for c in g["contents"]
              for f in ("fee", "counter", "gas_limit", "storage_limit", "amount", "balance", "ticket_amount"))
    ep = any(c.get("parameters", {}).get("entrypoint", "default") != "default" for c in g["contents"])
    stats.case(case, len(g["contents"]) >= 2 or big or ep, "n=%d" % min(len(g["contents"]), 4),
               sample={"kinds": [c["kind"] for c in g["contents"]],
                       "first": {k: (v if len(str(v)) < 60 else str(v)[:60] + "…") for k, v in g["contents"][0].items()}})
    for c in g["contents"]:
        stats.label("kind:" + c["kind"])
        p = c.get("parameters")
        if p:
            stats.label("entrypoint:" + (p["entrypoint"] if p["entrypoint"] in ref_ops.ENTRYPOINTS else "named"))


def run(h):
    n = selfcheck.ref_ops_vectors()
    h.coverage_extra["reference_validated"] = "reference codec reproduces the hashes of %d recorded groups" % n
    h.assumptions.append("reveal 'proof' field layout (presence byte + dynamic BLS signature) mirrors the current "
                         "protocol as implemented; not re-derived independently")
    h.run_enum([{"mode": "table"}], lambda c, s: (check_table(c), s.case(c, True, "table"))[1], shards=1)
    mc = 4 if h.quick else 8
    h.run_given(lambda: st.builds(lambda g: {"group": g}, gen_ops.group(mc)), _prop, h.n(300, 20000),
                shards=8 if h.quick else 16)
