"""C22 — a failing REPL cell leaves the session as if it never ran (metamorphic: session with vs without the failing cells)."""
from hypothesis import strategies as st

from vlib.harness import Violation

PID = "C22"
RULE = ("REPL sessions of 4..14 cells (thorough ..30), a third of them attached to a simulated node that serves the big maps given by identifier: type declarations (storage with 0, 1 or 2 big maps / sapling states / "
        "parameter), BEGIN "
        "with empty or non-empty big_map literals or big_map identifiers, contract bodies split into 1..3 cells (big_map UPDATE on the storage's maps, "
        "EMPTY_BIG_MAP + UPDATE of fresh maps), COMMIT, free cells (PUSH / DUP / SWAP / DROP / EMPTY_BIG_MAP / UPDATE / GET / "
        "PATCH AMOUNT|NOW|BALANCE / DROP_ALL / DUMP), and FAILING cells built from a prefix of the atoms of the next successful "
        "cell (so the cell mutates the stack, the big maps and the context counters exactly like real code) followed by a "
        "failing instruction inserted at every position: FAILWITH, type error, stack underflow, unknown primitive, parse error, "
        "bad declaration, BEGIN with an ill-typed literal, COMMIT on a wrong stack, and failures below the top level of the cell "
        "(inside DIP / DIP n / nested DIP / IF / ITER / MAP / LOOP bodies and executed lambdas); storages with sapling_state. Oracle (metamorphic): session A runs all "
        "cells, session B only the cells that did not fail in A, on fresh interpreters; after every surviving cell the stack "
        "(types, values, big_map pointer/pending items/pending removals), the context (environment, tmp/alloc big_map counters, "
        "origination index, big_map registry, declared sections) and the cell's stdout, error status and COMMIT results "
        "(lazy_diff, result) are equal. Non-trivial: a cell fails after having executed at least one mutating atom and a COMMIT "
        "succeeds later in the session. Distinct = distinct session.")

S_TYPES = {
    "S2": "pair (big_map nat nat) (big_map nat nat)",
    "S1": "big_map nat nat",
    "S0": "nat",
    "SS": "pair (sapling_state 8) (sapling_state 8)",
    "SB": "pair (big_map nat nat) (sapling_state 8)",
    "SO": "big_map (or nat string) nat",
}
BEGIN_LIT = {
    "S2": ["(Pair {} {})", "(Pair { Elt 1 2 } {})", "(Pair {} { Elt 5 6 ; Elt 7 8 })", "(Pair 7 {})", "(Pair 7 8)", "(Pair {} 3)"],
    "S1": ["{}", "{ Elt 1 2 }", "7", "0"],
    "S0": ["5", "0"],
    "SS": ["(Pair {} {})"],
    "SB": ["(Pair {} {})", "(Pair { Elt 1 2 } {})"],
    "SO": ["{}", "{ Elt (Left 1) 2 }", "{ Elt (Left 1) 2 ; Elt (Right \"a\") 3 }"],
}
BODIES = {
    "S2": [
        ["CDR", "UNPAIR", "PUSH (option nat) (Some 7)", "PUSH nat 1", "UPDATE", "SWAP", "PUSH (option nat) (Some 8)", "PUSH nat 2",
         "UPDATE", "SWAP", "PAIR", "NIL operation", "PAIR"],
        ["DROP", "EMPTY_BIG_MAP nat nat", "PUSH (option nat) (Some 1)", "PUSH nat 0", "UPDATE", "EMPTY_BIG_MAP nat nat",
         "PUSH (option nat) (Some 3)", "PUSH nat 4", "UPDATE", "PAIR", "NIL operation", "PAIR"],
        ["CDR", "UNPAIR", "DROP", "EMPTY_BIG_MAP nat nat", "PUSH (option nat) (Some 9)", "PUSH nat 9", "UPDATE", "PAIR", "NIL operation",
         "PAIR"],
        ["CDR", "UNPAIR", "PUSH (option nat) None", "PUSH nat 1", "UPDATE", "PAIR", "NIL operation", "PAIR"],
        ["CDR", "NIL operation", "PAIR"],
        ["CDR", "UNPAIR", "SWAP", "PAIR", "NIL operation", "PAIR"],
    ],
    "S1": [
        ["CDR", "NIL operation", "PAIR"],
        ["CDR", "DUP", "DROP", "NIL operation", "PAIR"],
        ["CDR", "PUSH (option nat) (Some 7)", "PUSH nat 1", "UPDATE", "NIL operation", "PAIR"],
        ["DROP", "EMPTY_BIG_MAP nat nat", "PUSH (option nat) (Some 1)", "PUSH nat 0", "UPDATE", "NIL operation", "PAIR"],
        ["CDR", "PUSH (option nat) None", "PUSH nat 1", "UPDATE", "PUSH (option nat) (Some 2)", "PUSH nat 3", "UPDATE", "NIL operation",
         "PAIR"],
    ],
    "S0": [
        ["CDR", "PUSH nat 1", "ADD", "NIL operation", "PAIR"],
        ["DROP", "PUSH nat 42", "NIL operation", "PAIR"],
    ],
    "SS": [
        ["CDR", "NIL operation", "PAIR"],
        ["DROP", "SAPLING_EMPTY_STATE 8", "SAPLING_EMPTY_STATE 8", "PAIR", "NIL operation", "PAIR"],
        ["CDR", "UNPAIR", "DROP", "SAPLING_EMPTY_STATE 8", "PAIR", "NIL operation", "PAIR"],
    ],
    "SO": [   # keys of a sum type: set, read and unset across cells
        ["CDR", "PUSH (option nat) (Some 7)", "PUSH (or nat string) (Left 1)", "UPDATE", "PUSH (option nat) None",
         "PUSH (or nat string) (Left 1)", "UPDATE", "NIL operation", "PAIR"],
        ["CDR", "PUSH (option nat) (Some 5)", "PUSH (or nat string) (Right \"a\")", "UPDATE", "DUP", "PUSH (or nat string) (Right \"a\")", "GET",
         "DROP", "PUSH (option nat) None", "PUSH (or nat string) (Right \"a\")", "UPDATE", "NIL operation", "PAIR"],
        ["CDR", "PUSH (option nat) (Some 9)", "PUSH (or nat string) (Left 2)", "UPDATE", "NIL operation", "PAIR"],
        ["CDR", "PUSH (option nat) None", "PUSH (or nat string) (Left 1)", "UPDATE", "NIL operation", "PAIR"],
    ],
    "SB": [
        ["CDR", "UNPAIR", "PUSH (option nat) (Some 7)", "PUSH nat 1", "UPDATE", "PAIR", "NIL operation", "PAIR"],
        ["DROP", "SAPLING_EMPTY_STATE 8", "EMPTY_BIG_MAP nat nat", "PUSH (option nat) (Some 1)", "PUSH nat 0", "UPDATE", "PAIR",
         "NIL operation", "PAIR"],
    ],
}
FREE = [
    ["PUSH nat 3"], ["PUSH nat 1", "PUSH nat 2", "ADD"], ["DUP"], ["SWAP"], ["DROP"], ["EMPTY_BIG_MAP nat nat"],
    ["EMPTY_BIG_MAP nat nat", "PUSH (option nat) (Some 5)", "PUSH nat 6", "UPDATE"],
    ["PUSH (option nat) (Some 3)", "PUSH nat 4", "UPDATE"], ["PUSH (option nat) None", "PUSH nat 4", "UPDATE"],
    ["DUP", "PUSH nat 4", "GET"], ["DUP", "PUSH nat 6", "MEM"],
    ["PATCH AMOUNT 5"], ["PATCH NOW 100"], ["PATCH BALANCE 77"], ["PATCH AMOUNT"], ["DROP_ALL"], ["DUMP"],
    ["PUSH string \"a\""], ["UNIT"], ["PUSH nat 1", "SOME"], ["SAPLING_EMPTY_STATE 8"], ["SAPLING_EMPTY_STATE 8"],
    ["PUSH nat 1", "PUSH nat 2", "DIP { PUSH nat 3 }"], ["PUSH (list nat) { 1 ; 2 }", "ITER { DROP }"],
    ["PUSH (or nat string) (Left 1)"], ["PUSH (or nat string) (Left 1)", "COMPARE"], ["PUSH (or nat string) (Right \"a\")"],
    ["PUSH (option (or nat string)) (Some (Left 1))"],
]
_UNWRAP = "IF_NONE { UNIT ; FAILWITH } {}"
TICKET_CELLS = [
    ["PUSH nat 5", "PUSH nat 1", "TICKET", _UNWRAP], ["PUSH nat 3", "PUSH nat 1", "TICKET", _UNWRAP],
    ["PAIR", "JOIN_TICKETS", _UNWRAP], ["PAIR", "JOIN_TICKETS", _UNWRAP], ["READ_TICKET", "DROP"],
    ["PUSH (pair nat nat) (Pair 2 1)", "SWAP", "SPLIT_TICKET", _UNWRAP, "UNPAIR"], ["PUSH nat 2", "PUSH nat 1", "TICKET", _UNWRAP],
    ["SWAP"], ["DUP 2", "DROP"],
]
MUTATING = ("UPDATE", "EMPTY_BIG_MAP", "PATCH", "BEGIN", "storage", "parameter", "DROP", "PUSH", "PAIR", "UNPAIR", "CDR", "DUP", "SWAP")
BAD = {
    "failwith": ["UNIT", "FAILWITH"],
    "type-error": ["PUSH int 1", "PUSH string \"a\"", "ADD"],
    "underflow": ["DROP 50"],
    "underflow-dig": ["DIG 40"],
    "unknown-prim": ["FOOBAR"],
    "parse-error": ["PUSH nat 1 ; {"],
    "bad-decl": ["storage (big_map (list nat) nat)"],
    "bad-push": ["PUSH nat (-1)"],
    "commit-wrong-stack": ["PUSH nat 1", "COMMIT"],
    "begin-ill-typed": ["BEGIN Unit \"zzz\""],
    "bad-patch": ["PATCH NOW \"not a date\""],
    # failures below the top level of the cell: inside DIP / DIP n / IF / ITER / MAP / LOOP bodies and executed lambdas
    "in-dip": ["PUSH nat 1", "DIP { UNIT ; FAILWITH }"],
    "in-dip-n": ["PUSH nat 1", "PUSH nat 2", "DIP 2 { PUSH int 1 ; PUSH string \"a\" ; ADD }"],
    "in-dip-underflow": ["PUSH nat 1", "DIP { DIG 7 }"],
    "in-nested-dip": ["PUSH nat 1", "PUSH nat 2", "DIP { DIP { PUSH nat 5 ; FAILWITH } }"],
    "in-if": ["PUSH bool True", "IF { UNIT ; FAILWITH } { }"],
    "in-iter": ["PUSH (list nat) { 1 ; 2 }", "ITER { DROP ; EMPTY_BIG_MAP nat nat ; FAILWITH }"],
    "in-map": ["PUSH (list nat) { 1 }", "MAP { FAILWITH }"],
    "in-loop": ["PUSH bool True", "LOOP { PUSH nat 1 ; DROP 2 }"],
    "in-lambda": ["LAMBDA unit unit { DIP { UNIT } ; FAILWITH }", "UNIT", "EXEC"],
    "dig-whole-stack": ["PUSH nat 1", "DIG 1"],
    # failures whose error carries raw bytes / numbers (optimized literals of domain types that do not decode): reporting such an
    # error may itself go wrong, the session must be restored all the same
    "bad-key-bytes": ["PUSH key 0x05"],
    "bad-address-bytes": ["PUSH address 0x05"],
    "bad-key-hash-bytes": ["PUSH key_hash 0x0500"],
    "bad-signature-bytes": ["PUSH signature 0x00"],
    "bad-chain-id-bytes": ["PUSH chain_id 0x00"],
    "bad-timestamp": ["PUSH timestamp \"yesterday\""],
}


# ---- observation -------------------------------------------------------------------------------------------------------
def obs_value(item):
    from pytezos.michelson.types import BigMapType, ListType, MapType, OptionType, OrType, PairType, SetType
    try:
        if isinstance(item, BigMapType):
            return {"big_map": item.ptr, "items": [[obs_value(k), obs_value(v)] for k, v in item.items],
                    "removed": [obs_value(k) for k in item.removed_keys]}
        if isinstance(item, PairType):
            return {"pair": [obs_value(x) for x in item.items]}
        if isinstance(item, OptionType):
            return {"option": None if item.item is None else obs_value(item.item)}
        if isinstance(item, OrType):
            return {"or": [obs_value(x) if hasattr(type(x), "prim") else None for x in item.items]}
        if isinstance(item, MapType):
            return {"map": [[obs_value(k), obs_value(v)] for k, v in item.items]}
        if isinstance(item, (ListType, SetType)):
            return {"seq": [obs_value(x) for x in item.items]}
        return item.to_micheline_value(mode="optimized")
    except Exception as e:  # a value that cannot be observed is compared by its repr
        return {"unobservable": repr(e), "repr": repr(item)}


def obs_stack(interp):
    return [["protected", getattr(interp.stack, "protected", None)]] + \
        [[type(i).as_micheline_expr(), obs_value(i)] for i in interp.stack.items]


CTX_FIELDS = ["amount", "balance", "now", "level", "sender", "source", "chain_id", "address", "tmp_big_map_index",
              "alloc_big_map_index", "origination_index", "big_maps", "parameter_expr", "storage_expr", "code_expr",
              "balance_update", "tmp_sapling_index", "alloc_sapling_index", "debug"]


def obs_context(interp):
    c = interp.context
    out = {f: repr(getattr(c, f, "<missing>")) for f in CTX_FIELDS}
    out["attached-to-node"] = repr((getattr(c, "shell", None) is not None, getattr(c, "network", None), getattr(c, "key", None) is not None))
    return out


def obs_result(res, raised):
    out = {"raised": raised, "error": None, "stdout": None, "commits": []}
    if res is None:
        return out
    out["error"] = None if res.error is None else type(res.error).__name__
    out["stdout"] = list(res.stdout)

    def walk(x, depth=0):
        if depth > 6 or x is None:
            return
        if hasattr(x, "lazy_diff"):
            r = getattr(x, "result", None)
            out["commits"].append({"lazy_diff": x.lazy_diff,
                                   "result": None if r is None else [type(r).as_micheline_expr(), obs_value(r)]})
        items = getattr(x, "items", None)
        if isinstance(items, (list, tuple)):
            for y in items:
                walk(y, depth + 1)
    walk(res.instructions)
    return out


def run_cell(interp, text):
    try:
        res = interp.execute(text)
        return res, None
    except Exception as e:  # execute() is documented to report errors in the result; a raise counts as a failed cell
        return None, "%s: %s" % (type(e).__name__, str(e)[:80])


def _attach(it):
    """The session is attached to a (simulated) node, as after RESET "<network>": big maps given by identifier are read from it."""
    from hashlib import blake2b
    from vlib import fake_node
    from vlib import ref_crypto as rc
    from vlib import ref_values as rv
    node = fake_node.FakeNode()
    for bm in (0, 3, 7, 8):
        node.big_maps[bm] = {rc.tz_encode(blake2b(rv.pack(rv.T("nat"), k, legacy=True), digest_size=32).digest(), "expr"): {"int": str(10 * bm + k)}
                             for k in (1, 4, 6)}
    it.context.shell = fake_node.shell(node)
    it.context.network = "fakenet"


def _interpreter(case):
    from pytezos.michelson.repl import Interpreter
    it = Interpreter()
    if case.get("attached"):
        _attach(it)
    return it


def oracle(case):
    cells = case["cells"]
    A = _interpreter(case)
    failed, trace_a = [], []
    for i, text in enumerate(cells):
        res, raised = run_cell(A, text)
        bad = raised is not None or res.error is not None
        failed.append(bad)
        trace_a.append((obs_result(res, raised), obs_stack(A), obs_context(A)))
    B = _interpreter(case)
    for i, text in enumerate(cells):
        if failed[i]:
            continue
        res, raised = run_cell(B, text)
        rb, sb, cb = obs_result(res, raised), obs_stack(B), obs_context(B)
        ra, sa, ca = trace_a[i]
        before = [j for j in range(i) if failed[j]]
        if not before:
            if (ra, sa, ca) != (rb, sb, cb):
                raise Violation("non-deterministic session: cell %d differs between two runs with no failure before it" % i, case,
                                "nondeterministic")
            continue
        ctx = "cell #%d %r (failed cells before it: %s)" % (i, text, [(j, cells[j]) for j in before][-3:])
        if ra["error"] != rb["error"] or ra["raised"] != rb["raised"]:
            raise Violation("%s: with the failing cells error=%r raised=%r, without them error=%r raised=%r" % (
                ctx, ra["error"], ra["raised"], rb["error"], rb["raised"]), case, "later-cell-outcome")
        if sa != sb:
            raise Violation("%s: stack differs: with failures %s, without %s" % (ctx, _short(sa), _short(sb)), case, "stack")
        if ca != cb:
            diff = {k: (ca[k], cb[k]) for k in ca if ca[k] != cb[k]}
            raise Violation("%s: context differs (with failures, without): %s" % (ctx, diff), case,
                            "context:" + ",".join(sorted(diff)))
        if ra["commits"] != rb["commits"]:
            raise Violation("%s: COMMIT result differs: with failures %s, without %s" % (ctx, _short(ra["commits"]), _short(rb["commits"])),
                            case, "commit-result")
        if ra["stdout"] != rb["stdout"]:
            raise Violation("%s: stdout differs: with failures %s, without %s" % (ctx, ra["stdout"][-4:], rb["stdout"][-4:]), case,
                            "stdout")
    # the state right after a failing cell equals the state before it (checked on session A alone)
    prev = ([], None)
    A2 = _interpreter(case)
    prev_stack, prev_ctx = obs_stack(A2), obs_context(A2)
    for i, text in enumerate(cells):
        _, sa, ca = trace_a[i]
        if failed[i]:
            if sa != prev_stack:
                raise Violation("failing cell #%d %r changed the stack: before %s after %s" % (i, text, _short(prev_stack), _short(sa)), case,
                                "failing-cell-changed-stack")
            if ca != prev_ctx:
                diff = {k: (prev_ctx[k], ca[k]) for k in ca if ca[k] != prev_ctx[k]}
                raise Violation("failing cell #%d %r changed the context: %s" % (i, text, diff), case,
                                "failing-cell-changed-context:" + ",".join(sorted(diff)))
        prev_stack, prev_ctx = sa, ca
    return failed, [t[0] for t in trace_a]


def _short(x):
    s = str(x)
    return s if len(s) < 500 else s[:500] + "…"


def replay(case):
    oracle(case)


# ---- generation ------------------------------------------------------------------------------------------------------
@st.composite
def sessions(draw, max_rounds):
    sk = draw(st.sampled_from(["S2", "S2", "S2", "S1", "S1", "S0", "SS", "SS", "SB", "SO", "SO"]))
    cells, kinds = [], []
    plan = []  # list of atom lists (each one a successful-by-design cell)
    plan.append(["storage (%s)" % S_TYPES[sk]])
    plan.append(["parameter unit"])
    for _ in range(draw(st.integers(1, max_rounds))):
        if draw(st.integers(0, 3)) == 0:   # tickets kept on the stack across cells, then joined / split / read
            plan += [list(c) for c in TICKET_CELLS[:2]]
            for _ in range(draw(st.integers(1, 3))):
                plan.append(list(draw(st.sampled_from(TICKET_CELLS[2:]))))
        for _ in range(draw(st.integers(0, 2))):
            plan.append(list(draw(st.sampled_from(FREE))))
        plan.append(["BEGIN Unit %s" % draw(st.sampled_from(BEGIN_LIT[sk]))])
        body = list(draw(st.sampled_from(BODIES[sk])))
        cuts = sorted(draw(st.sets(st.integers(1, len(body) - 1), max_size=2)))
        start = 0
        for c in cuts + [len(body)]:
            plan.append(body[start:c])
            start = c
        plan.append(["COMMIT"])
        if draw(st.integers(0, 3)) == 0:
            sk2 = draw(st.sampled_from(["S2", "S1", "S0", "SS", "SB", "SO"]))
            if sk2 != sk:
                sk = sk2
                plan.append(["storage (%s)" % S_TYPES[sk]])
    for idx, atoms in enumerate(plan):
        # failing cells before this one: a prefix of its atoms (real mutations) + a failing atom at any position
        for _ in range(draw(st.sampled_from([0, 0, 0, 1, 1, 2]))):
            bad_kind = draw(st.sampled_from(sorted(BAD)))
            src = atoms if draw(st.integers(0, 3)) else list(draw(st.sampled_from(FREE)))
            j = draw(st.integers(0, len(src)))
            keep_suffix = draw(st.booleans())
            text = src[:j] + BAD[bad_kind] + (src[j:] if keep_suffix else [])
            cells.append(" ; ".join(text))
            kinds.append({"fail": bad_kind, "prefix": src[:j]})
        cells.append(" ; ".join(atoms))
        kinds.append({"ok": True})
    return {"cells": cells, "meta": kinds, "attached": draw(st.integers(0, 2)) == 0}


def _prop(case, stats):
    failed, results = oracle(case)
    mutating_fail = False
    nontrivial = False
    for i, f in enumerate(failed):
        m = case["meta"][i] if i < len(case.get("meta", [])) else {}
        if f and any(any(a.startswith(p) for p in MUTATING) for a in m.get("prefix", [])):
            mutating_fail = True
        if not f and mutating_fail and results[i]["commits"]:
            nontrivial = True
    nfail = sum(failed)
    stats.case(case["cells"], nontrivial, "failed-cells=%s" % ("0" if nfail == 0 else "1-2" if nfail <= 2 else "3+"),
               sample={"cells": case["cells"][:10], "failed": [i for i, f in enumerate(failed) if f]})
    for i, f in enumerate(failed):
        m = case["meta"][i] if i < len(case.get("meta", [])) else {}
        if f and "fail" in m:
            stats.label("fail:" + m["fail"])
        elif f:
            stats.label("fail:planned-ok-cell-failed")
        elif "fail" in m:
            stats.label("planned-failure-succeeded:" + m["fail"])
    if any(r["commits"] for r in results):
        stats.label("has-commit")
    if case.get("attached"):
        stats.label("attached-to-node")


def run(h):
    h.run_given(lambda: sessions(2 if h.quick else 5), _prop, h.n(25, 1500), shards=16)
