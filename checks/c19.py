"""C19 — every macro the parser accepts has its specified Michelson meaning."""
import itertools

import json

from hypothesis import strategies as st

from vlib import gen_types as gt
from vlib import interp
from vlib import ref_values as rv
from vlib.harness import Violation

PID = "C19"
RULE = ("macro names are ENUMERATED: CMPop / IFop / IFCMPop / ASSERT_op / ASSERT_CMPop (6 each), FAIL, ASSERT, ASSERT_NONE/"
        "SOME/LEFT/RIGHT, IF_SOME, IF_RIGHT, DI{2..6}P, DU{2..6}P (thorough ..9), every P[PAI]+R tree with 3..6 leaves "
        "(thorough ..8) and its UNP..R, every C[AD]{2..5}R / SET_C[AD]{1..5}R / MAP_C[AD]{1..5}R path (thorough ..6), each "
        "without and with field/variable annotations; for every name hypothesis draws stacks of matching shape (a quarter of the leaves under "
        "PAIR / UNPAIR trees are tickets, which no expansion may copy; leaves of "
        "types int nat string bool pair option, values near each other for comparisons, 0..2 untouched items below). "
        "The macro TEXT is parsed by michelson_to_micheline and executed. Oracle: the macro's meaning implemented "
        "directly on reference values (tree build/unbuild, path get/set/map, compare-and-test, branch selection, failure "
        "with Unit), never through its expansion; UNP..R after P..R must restore the stack. Non-trivial: the macro name "
        "has >= 5 letters or carries annotations. Distinct = distinct (macro text, stack).")

OPS = {"EQ": lambda c: c == 0, "NEQ": lambda c: c != 0, "LT": lambda c: c < 0, "GT": lambda c: c > 0,
       "LE": lambda c: c <= 0, "GE": lambda c: c >= 0}
T = rv.T
STR, INT, BOOL, UNIT = T("string"), T("int"), T("bool"), T("unit")
LEAF_TYPES = [INT, T("nat"), STR, BOOL, T("pair", INT, STR), T("option", INT)]


TICKET_T = T("ticket", STR)
_SELF = []


def _self_address():
    """ticketer of tickets created in a fresh interpreter context (asked from pytezos once; not part of the property)"""
    if not _SELF:
        stk, out, err = interp.run([{"prim": "SELF_ADDRESS"}])
        _SELF.append(rv.from_micheline(T("address"), interp.read_item(stk.items[0])[1]))
    return _SELF[0]


def has_ticket(t):
    return rv.contains_type(t, {"ticket"})


def enc(t, v):
    """JSON form of a reference value that may hold tickets (pairs of ticket-free values and tickets only)"""
    if not has_ticket(t):
        return rv.to_micheline(t, v)
    if t["prim"] == "ticket":
        return {"ticket": [v[2], v[3]]}
    a = rv.targs(t)
    return {"prim": "Pair", "args": [enc(a[0], v[0]), enc(a[1], v[1])]}


def dec(t, m):
    if not has_ticket(t):
        return rv.from_micheline(t, m)
    if t["prim"] == "ticket":
        return ("ticket", _self_address(), m["ticket"][0], m["ticket"][1])
    a = rv.targs(t)
    return (dec(a[0], m["args"][0]), dec(a[1], m["args"][1]))


def build_code(t, m):
    """instructions that leave the value `m` (enc form) of type t on top of the stack"""
    if not has_ticket(t):
        return [interp.push(t, m)]
    if t["prim"] == "ticket":
        return [interp.push(T("nat"), {"int": str(m["ticket"][1])}), interp.push(STR, {"string": m["ticket"][0]}), {"prim": "TICKET"},
                {"prim": "IF_NONE", "args": [[{"prim": "UNIT"}, {"prim": "FAILWITH"}], []]}]
    a = rv.targs(t)
    return build_code(a[1], m["args"][1]) + build_code(a[0], m["args"][0]) + [{"prim": "PAIR"}]


def canon(t, v):
    """comparison form of a (type, reference value): ticket-bearing values are compared as optimized Micheline"""
    if has_ticket(t):
        from vlib import ref_interp as ri
        return (t, ("micheline", json.dumps(ri.value_to_micheline(t, v, "optimized"), sort_keys=True)))
    return (t, v)


# ---- pair trees ------------------------------------------------------------------------------------------------------
def trees(k):
    """all binary trees with k leaves; a leaf is None"""
    if k == 1:
        return [None]
    out = []
    for i in range(1, k):
        for l in trees(i):
            for r in trees(k - i):
                out.append((l, r))
    return out


def tree_name(t, left=True):
    if t is None:
        return "A" if left else "I"
    return "P" + tree_name(t[0], True) + tree_name(t[1], False)


def tree_build(t, leaves):
    """consumes leaves (list of (type, value)) from the front"""
    if t is None:
        return leaves.pop(0)
    lt, lv = tree_build(t[0], leaves)
    rt, rvv = tree_build(t[1], leaves)
    return T("pair", lt, rt), (lv, rvv)


def tree_leaves(t, ty, v, out):
    if t is None:
        out.append((ty, v))
        return
    a = rv.targs(ty)
    tree_leaves(t[0], a[0], v[0], out)
    tree_leaves(t[1], a[1], v[1], out)


def tree_size(t):
    return 1 if t is None else tree_size(t[0]) + tree_size(t[1])


def tree_from_json(j):
    return None if j is None else (tree_from_json(j[0]), tree_from_json(j[1]))


# ---- paths -----------------------------------------------------------------------------------------------------------
def path_get(ty, v, path):
    for c in path:
        i = 0 if c == "A" else 1
        ty, v = rv.targs(ty)[i], v[i]
    return ty, v


def path_set(ty, v, path, nt, nv):
    if not path:
        return nt, nv
    i = 0 if path[0] == "A" else 1
    a = list(rv.targs(ty))
    vv = list(v)
    a[i], vv[i] = path_set(a[i], vv[i], path[1:], nt, nv)
    return T("pair", *a), tuple(vv)


MAP_CODES = {
    "add3": ("{ PUSH int 3 ; ADD }", lambda t, v: (INT, v + 3), lambda t: t == INT),
    "const": ("{ DROP ; PUSH string \"m\" }", lambda t, v: (STR, "m"), lambda t: True),
    "some": ("{ SOME }", lambda t, v: (T("option", t), ("Some", v)), lambda t: True),
    "dup": ("{ DUP ; PAIR }", lambda t, v: (T("pair", t, t), (v, v)), lambda t: True),
    "id": ("{ }", lambda t, v: (t, v), lambda t: True),
    "peek": ("{ DROP ; DUP }", None, lambda t: True),  # looks at what lies below the mapped field (see reference())
}
DIP_CODES = {
    "push": ("{ PUSH int 7 }", lambda s: [(INT, 7)] + s, lambda s: True),
    "drop": ("{ DROP }", lambda s: s[1:], lambda s: len(s) >= 1),
    "swap": ("{ SWAP }", lambda s: [s[1], s[0]] + s[2:], lambda s: len(s) >= 2),
    "add": ("{ PUSH int 1 ; ADD }", lambda s: [(INT, s[0][1] + 1)] + s[1:], lambda s: len(s) >= 1 and s[0][0] == INT),
    "nop": ("{ }", lambda s: s, lambda s: True),
}


class Fail(Exception):
    pass


# ---- reference meaning ---------------------------------------------------------------------------------------------
def reference(case):
    """-> list of (type, value) top first; raises Fail for `Unit; FAILWITH`."""
    k = case["kind"]
    s = [(i["t"], dec(i["t"], i["v"])) for i in case["stack"]]
    if k == "CMP":
        (ta, a), (tb, b) = s[0], s[1]
        return [(BOOL, OPS[case["op"]](rv.compare(ta, a, b)))] + s[2:]
    if k in ("IF", "ASSERT_"):
        c = (s[0][1] > 0) - (s[0][1] < 0)
        ok = OPS[case["op"]](c)
        rest = s[1:]
    elif k in ("IFCMP", "ASSERT_CMP"):
        ok = OPS[case["op"]](rv.compare(s[0][0], s[0][1], s[1][1]))
        rest = s[2:]
    if k in ("IF", "IFCMP"):
        return [(STR, "T" if ok else "F")] + rest
    if k in ("ASSERT_", "ASSERT_CMP"):
        if not ok:
            raise Fail()
        return rest
    if k == "FAIL":
        raise Fail()
    if k == "ASSERT":
        if not s[0][1]:
            raise Fail()
        return s[1:]
    if k == "ASSERT_NONE":
        if s[0][1] is not None:
            raise Fail()
        return s[1:]
    if k == "ASSERT_SOME":
        if s[0][1] is None:
            raise Fail()
        return [(rv.targs(s[0][0])[0], s[0][1][1])] + s[1:]
    if k in ("ASSERT_LEFT", "ASSERT_RIGHT"):
        want = "Left" if k == "ASSERT_LEFT" else "Right"
        if s[0][1][0] != want:
            raise Fail()
        return [(rv.targs(s[0][0])[0 if want == "Left" else 1], s[0][1][1])] + s[1:]
    if k == "IF_SOME":  # IF_SOME bt bf: bt runs with the content on top (here: DROP; PUSH "T"), bf on None
        return [(STR, "F" if s[0][1] is None else "T")] + s[1:]
    if k == "IF_RIGHT":
        return [(STR, "T" if s[0][1][0] == "Right" else "F")] + s[1:]
    if k == "DIP":
        n = case["n"]
        return s[:n] + DIP_CODES[case["code"]][1](s[n:])
    if k == "DUP":
        return [s[case["n"] - 1]] + s
    if k == "PAIR":
        tree = tree_from_json(case["tree"])
        leaves = s[:tree_size(tree)]
        rest = s[tree_size(tree):]
        return [tree_build(tree, list(leaves))] + rest
    if k == "UNPAIR":
        tree = tree_from_json(case["tree"])
        out = []
        tree_leaves(tree, s[0][0], s[0][1], out)
        return out + s[1:]
    if k == "CXR":
        return [path_get(s[0][0], s[0][1], case["path"])] + s[1:]
    if k == "SET":
        return [path_set(s[0][0], s[0][1], case["path"], s[1][0], s[1][1])] + s[2:]
    if k == "MAP":
        t, v = path_get(s[0][0], s[0][1], case["path"])
        if case["code"] == "peek":
            # MAP_CDR code = { DUP ; CDR ; code ; SWAP ; CAR ; PAIR }: the body runs with the enclosing pair right below its
            # argument; MAP_CAR code = { DUP ; CDR ; DIP { CAR ; code } ; SWAP ; PAIR }: with the caller's stack below it
            nt, nv = path_get(s[0][0], s[0][1], case["path"][:-1]) if case["path"][-1] == "D" else s[1]
        else:
            nt, nv = MAP_CODES[case["code"]][1](t, v)
        return [path_set(s[0][0], s[0][1], case["path"], nt, nv)] + s[1:]
    raise ValueError(k)


# ---- execution -------------------------------------------------------------------------------------------------------
_parser = {}


def parse(text):
    from pytezos.michelson.parse import michelson_to_micheline
    return michelson_to_micheline(text)


def execute(case):
    """-> ('ok', [(type, value)...]) | ('fail', payload) | ('error', args)"""
    try:
        code = parse("{ %s }" % case["text"])
    except Exception as e:
        raise Violation("the parser rejects the macro %r: %r" % (case["text"], e), case, "parse:" + case["kind"])
    prelude = [ins for i in reversed(case["stack"]) for ins in build_code(i["t"], i["v"])]
    stk, out, err = interp.run(prelude + (code if isinstance(code, list) else [code]))
    if err is not None:
        if len(err.args) >= 2 and err.args[-2] == "FAILWITH":
            return ("fail", err.args[-1])
        return ("error", err.args)
    res = []
    for item in stk.items:
        t, m = interp.read_item(item)
        if has_ticket(t):
            res.append((t, ("micheline", json.dumps(m, sort_keys=True))))
        else:
            res.append((t, interp.parse_output(t, m, "result of %s" % case["text"])))
    return ("ok", res)


def oracle(case):
    try:
        want = ("ok", [canon(t, v) for t, v in reference(case)])
    except Fail:
        want = ("fail", "Unit")
    got = execute(case)
    name = case["text"].split(" ")[0]
    if got[0] == "error":
        raise Violation("%s raised %r on stack %s; its Michelson meaning gives %s" % (
            case["text"], got[1], _show(case["stack"]), _brief(want)), case, "error:%s" % case["kind"])
    if want[0] == "fail":
        if got != want:
            raise Violation("%s must fail with Unit on stack %s, got %s" % (case["text"], _show(case["stack"]), _brief(got)), case,
                            "missing-failure:" + case["kind"])
        return "fail"
    if got[0] == "fail":
        raise Violation("%s failed with %r on stack %s; its Michelson meaning gives %s" % (
            case["text"], got[1], _show(case["stack"]), _brief(want)), case, "unexpected-failure:" + case["kind"])
    if got[1] != want[1]:
        raise Violation("%s on stack %s gives %s, its Michelson meaning gives %s" % (
            case["text"], _show(case["stack"]), _brief(got), _brief(want)), case, "result:" + case["kind"])
    if case["kind"] == "PAIR":  # the matching UNP..R macro undoes it
        back = dict(case, text="%s ; UN%s%s" % (case["text"], name, case.get("undo_annots", "")), stack=case["stack"])
        got2 = execute(back)
        orig = [canon(i["t"], dec(i["t"], i["v"])) for i in case["stack"]]
        if got2 != ("ok", orig):
            raise Violation("UN%s does not undo %s: stack %s became %s" % (name, name, _show(case["stack"]), _brief(got2)), case,
                            "unpair-does-not-undo")
    return "ok"


def _show(stack):
    return [i["v"] for i in stack]


def _brief(r):
    if r[0] == "ok":
        return "[" + " : ".join(v[1] if isinstance(v, tuple) and v[:1] == ("micheline",) else str(rv.to_micheline(t, v)) for t, v in r[1]) + "]"
    return "%s %r" % r


def replay(case):
    oracle(case)


# ---- enumeration of names + stack strategies -----------------------------------------------------------------------------
def _leaf():
    return st.sampled_from(LEAF_TYPES).flatmap(lambda t: gt.values(t).map(lambda v: (t, v)))


def _below():
    return st.lists(_leaf(), max_size=2)


def _item(t, v):
    return {"t": t, "v": enc(t, v)}


def _leaf_t():
    """a leaf that is sometimes a ticket (not duplicable: only macros whose meaning never copies may see it)"""
    tk = st.tuples(st.sampled_from(["a", "b", ""]), st.integers(1, 9)).map(lambda ca: (TICKET_T, ("ticket", _self_address(), ca[0], ca[1])))
    return st.one_of(_leaf(), _leaf(), _leaf(), tk)


@st.composite
def _path_value(draw, path):
    """a (type, value) whose structure has the C[AD]+R path; off-path components are arbitrary leaves"""
    if not path:
        return draw(_leaf())
    on = draw(_path_value(path[1:]))
    off = draw(_leaf())
    pair = (on, off) if path[0] == "A" else (off, on)
    return T("pair", pair[0][0], pair[1][0]), (pair[0][1], pair[1][1])


@st.composite
def _tree_value(draw, tree):
    if tree is None:
        return draw(_leaf_t())
    l, r = draw(_tree_value(tree[0])), draw(_tree_value(tree[1]))
    return T("pair", l[0], r[0]), (l[1], r[1])


def _annots(draw, n_field=0, var=False, n_var=0):
    out = []
    for i in range(n_field):
        out.append("%%f%d" % i)
    for i in range(n_var):
        out.append("@v%d" % i)
    if var:
        out.append("@v")
    return out


def spec_strategy(spec):
    """spec = dict(kind=..., name=..., annotated=bool, ...) -> strategy of full cases"""
    k, name, ann = spec["kind"], spec["name"], spec["annotated"]

    @st.composite
    def s(draw):
        case = dict(spec)
        below = draw(_below())
        annots = []
        if k in ("CMP", "IFCMP", "ASSERT_CMP"):
            t = draw(gt.comparable_types(1, ["int", "nat", "string", "bytes", "bool", "mutez", "timestamp", "key_hash", "address"]))
            a = draw(gt.values(t))
            b = draw(st.one_of(st.just(a), gt.near(t, a), gt.values(t)))
            if rv.compare(t, a, b) is rv.UNCONSTRAINED:
                b = a
            stack = [(t, a), (t, b)]
            if k == "CMP" and ann:
                annots = ["@v"]
        elif k in ("IF", "ASSERT_"):
            stack = [(INT, draw(st.sampled_from([0, 1, -1, 2, -2 ** 70, 2 ** 70])))]
        elif k == "FAIL":
            stack = []
        elif k == "ASSERT":
            stack = [(BOOL, draw(st.booleans()))]
        elif k in ("ASSERT_NONE", "ASSERT_SOME", "IF_SOME"):
            t = T("option", draw(st.sampled_from(LEAF_TYPES)))
            stack = [(t, draw(gt.values(t)))]
            if k == "ASSERT_SOME" and ann:
                annots = ["@v"]
        elif k in ("ASSERT_LEFT", "ASSERT_RIGHT", "IF_RIGHT"):
            t = T("or", draw(st.sampled_from(LEAF_TYPES)), draw(st.sampled_from(LEAF_TYPES)))
            stack = [(t, draw(gt.values(t)))]
            if k != "IF_RIGHT" and ann:
                annots = ["@v"]
        elif k == "DIP":
            n = spec["n"]
            stack = [draw(_leaf()) for _ in range(n + draw(st.integers(0, 2)))]
            okc = [c for c, (_, _, pre) in sorted(DIP_CODES.items()) if pre(stack[n:])]
            case["code"] = draw(st.sampled_from(okc))
        elif k == "DUP":
            stack = [draw(_leaf()) for _ in range(spec["n"])]
            if ann:
                annots = ["@v"]
        elif k == "PAIR":
            tree = tree_from_json(spec["tree"])
            stack = [draw(_leaf_t()) for _ in range(tree_size(tree))]
            if ann:
                annots = ["%%f%d" % i for i in range(tree_size(tree))] + (["@v"] if draw(st.booleans()) else [])
            if draw(st.booleans()):  # the undoing UNP..R macro carries annotations of its own
                case["undo_annots"] = "".join(" %s%d" % (draw(st.sampled_from(["%g", "@w"])), i) for i in range(tree_size(tree)))
        elif k == "UNPAIR":
            tree = tree_from_json(spec["tree"])
            stack = [draw(_tree_value(tree))]
            if ann:
                sig = draw(st.sampled_from(["@v", "%f", "%f"]))
                annots = ["%s%d" % (sig, i) for i in range(tree_size(tree))]
        elif k == "CXR":
            stack = [draw(_path_value(spec["path"]))]
            if ann:
                annots = draw(st.sampled_from([["@v"], ["%f"], ["@v", "%f"]]))
        elif k == "SET":
            stack = [draw(_path_value(spec["path"])), draw(_leaf())]
            if ann:
                annots = draw(st.sampled_from([["%f"], ["@v"], ["%f", "@v"]]))
        elif k == "MAP":
            stack = [draw(_path_value(spec["path"]))]
            if not below:
                below = [draw(_leaf())]
            lt, _ = path_get(stack[0][0], stack[0][1], spec["path"])
            okc = [c for c, (_, _, pre) in sorted(MAP_CODES.items()) if pre(lt)]
            case["code"] = draw(st.sampled_from(okc))
            if ann:
                annots = draw(st.sampled_from([["%f"], ["@v"], ["%f", "@v"]]))
        else:
            raise ValueError(k)
        text = name + "".join(" " + a for a in annots)
        if k in ("IF", "IFCMP"):
            text += ' { PUSH string "T" } { PUSH string "F" }'
        elif k == "IF_SOME":
            text += ' { DROP ; PUSH string "T" } { PUSH string "F" }'
        elif k == "IF_RIGHT":
            text += ' { DROP ; PUSH string "T" } { DROP ; PUSH string "F" }'
        elif k == "DIP":
            text += " " + DIP_CODES[case["code"]][0]
        elif k == "MAP":
            text += " " + MAP_CODES[case["code"]][0]
        case["text"] = text
        case["stack"] = [_item(t, v) for t, v in stack + below]
        return case
    return s()


def all_specs(quick):
    specs = []

    def add(kind, name, **kw):
        for ann in (False, True):
            specs.append(dict(kind=kind, name=name, annotated=ann, **kw))

    for op in OPS:
        add("CMP", "CMP" + op, op=op)
        add("IF", "IF" + op, op=op)
        add("IFCMP", "IFCMP" + op, op=op)
        add("ASSERT_", "ASSERT_" + op, op=op)
        add("ASSERT_CMP", "ASSERT_CMP" + op, op=op)
    for nm in ("FAIL", "ASSERT", "ASSERT_NONE", "ASSERT_SOME", "ASSERT_LEFT", "ASSERT_RIGHT", "IF_SOME", "IF_RIGHT"):
        add(nm, nm)
    for n in range(2, 7 if quick else 10):
        add("DIP", "D" + "I" * n + "P", n=n)
        add("DUP", "D" + "U" * n + "P", n=n)
    for k in range(3, 7 if quick else 9):
        for t in trees(k):
            nm = tree_name(t) + "R"
            add("PAIR", nm, tree=t)
            add("UNPAIR", "UN" + nm, tree=t)
    for L in range(1, 6 if quick else 7):
        for p in itertools.product("AD", repeat=L):
            path = "".join(p)
            if L >= 2:
                add("CXR", "C%sR" % path, path=path)
            add("SET", "SET_C%sR" % path, path=path)
            add("MAP", "MAP_C%sR" % path, path=path)
    # annotated variants exist only where the macro takes annotations at all
    noann = {"IF", "IFCMP", "ASSERT_", "ASSERT_CMP", "FAIL", "ASSERT", "ASSERT_NONE", "IF_SOME", "IF_RIGHT", "DIP"}
    specs = [s for s in specs if not (s["annotated"] and s["kind"] in noann)]
    # kinds with few names get more stacks per name (each copy is seeded separately)
    few = {"CMP", "IF", "IFCMP", "ASSERT_", "ASSERT_CMP", "FAIL", "ASSERT", "ASSERT_NONE", "ASSERT_SOME", "ASSERT_LEFT",
           "ASSERT_RIGHT", "IF_SOME", "IF_RIGHT", "DIP", "DUP"}
    return specs + [dict(s) for s in specs if s["kind"] in few for _ in range(5)]


def _prop(case, stats):
    res = oracle(case)
    name = case["text"].split(" ")[0]
    letters = len(name.replace("_", ""))
    stats.case([case["text"], case["stack"]], letters >= 5 or case["annotated"], "%s:%s" % (case["kind"], res),
               sample={"macro": case["text"], "stack": _show(case["stack"])})
    if case["annotated"]:
        stats.label("annotated")


def run(h):
    specs = all_specs(h.quick)
    h.exhaustive = True
    h.coverage_extra["exhaustive_subdomain"] = "%d macro names (x with/without annotations) enumerated; stacks sampled per name" % len(specs)
    h.coverage_extra["macro_names"] = len({s["name"] for s in specs})
    h.run_enum_given(specs, spec_strategy, _prop, reps=h.n(5, 40), shards=16, shrink=h.quick is False)
