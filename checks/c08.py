"""C08 — key import, export and address derivation are consistent."""
import hashlib
import os
import unicodedata

from hypothesis import strategies as st

from vlib import gen_keys
from vlib import interp
from vlib import ref_crypto as rc
from vlib.harness import Violation

PID = "C08"
RULE = ("secret keys of the four curves (uniform valid scalars plus 1, n-1, high-bit patterns; Ed25519 seeds and 64-byte "
        "keys); passphrases (text incl. non-ASCII, bytes); mnemonics: valid ones from random entropy of "
        "128/160/192/224/256 bits with an independent checksum, the same with one word replaced or two swapped, wrong "
        "lengths, in english and eight other wordlists, spelled NFKD / NFC / with ideographic spaces (japanese); emails/passwords. Oracle: public key == independent derivation (cryptography / py_ecc primitives), "
        "pkh == b58(tzN, blake2b-160(pk)) and HASH_KEY agrees, export/import (plain, encrypted, Ed25519 seed and "
        "64-byte form) preserves the key, wrong passphrase rejected, validate_mnemonic accepts iff the independent "
        "BIP-39 checksum accepts, from_mnemonic deterministic and equal to an independent PBKDF2 derivation; the wallet-file route "
        "(from_faucet) accepts exactly the same sentences and derives the same key. "
        "Volume sub-check: 800 (thorough 6400) further secrets per curve (Ed25519, secp256k1, P-256), public key and address only. "
        "Non-trivial: case exercises encryption or a mnemonic. Distinct = distinct case.")

os.environ.setdefault("PYTEZOS_PASSPHRASE", "")  # never prompt


def _wordlist(lang="english"):
    from mnemonic import Mnemonic
    return [unicodedata.normalize("NFKD", w) for w in Mnemonic(lang).wordlist]


def _spell(words, form, lang):
    """The same word sequence as a sentence in one of its legitimate spellings (BIP-39: sentences are compared after NFKD)."""
    text = " ".join(words)
    if form == "nfc":
        return unicodedata.normalize("NFC", text)
    if form == "ideographic-space":
        return "\u3000".join(words)
    return text


def check_key(case):
    from pytezos.crypto.key import Key
    curve, sec = case["curve"], bytes.fromhex(case["secret"])
    try:
        k = Key.from_secret_exponent(sec, curve.encode())
    except Exception as e:
        raise Violation("from_secret_exponent(%s) raised %r" % (curve, e), case, "derive-raise:" + curve)
    want_pub = rc.derive_public(curve, sec)
    want_pk = rc.tz_encode(want_pub, rc.CURVE_PK[curve])
    try:
        got_pk, got_pkh = k.public_key(), k.public_key_hash()
    except Exception as e:
        raise Violation("public_key()/public_key_hash() raised %r for a %s key (expected %s)" % (e, curve, want_pk), case,
                        "public-key-raise:" + curve)
    if got_pk != want_pk:
        raise Violation("%s public key %s, independent derivation %s" % (curve, got_pk, want_pk), case,
                        "public-key:" + curve)
    want_pkh = rc.tz_encode(rc.blake2b_20(want_pub), rc.CURVE_PKH[curve])
    if got_pkh != want_pkh:
        raise Violation("%s pkh %s, expected %s" % (curve, got_pkh, want_pkh), case, "pkh:" + curve)
    # HASH_KEY
    stk, out, err = interp.run([interp.push({"prim": "key"}, {"string": want_pk}), {"prim": "HASH_KEY"}])
    if err is not None:
        raise Violation("HASH_KEY failed on %s: %r" % (want_pk, err), case, "hash_key-raise:" + curve)
    t, v = interp.read_item(stk.items[0], "readable")
    if t != {"prim": "key_hash"} or v != {"string": want_pkh}:
        raise Violation("HASH_KEY %s -> %r, expected %s" % (want_pk, v, want_pkh), case, "hash_key:" + curve)
    # public key import
    pub = Key.from_encoded_key(want_pk)
    if pub.public_key() != want_pk or pub.public_key_hash() != want_pkh or pub.is_secret:
        raise Violation("from_encoded_key(%s) gives %s" % (want_pk, pub.public_key()), case, "import-public:" + curve)
    # plain export / import
    forms = [dict()]
    if curve == "ed":
        forms.append(dict(ed25519_seed=False))
    for kw in forms:
        try:
            sk = k.secret_key(**kw)
            k2 = Key.from_encoded_key(sk)
        except Exception as e:
            raise Violation("plain export/import (%s, %s) raised %r" % (curve, kw, e), case, "export-raise:" + curve)
        if k2.public_key() != want_pk or k2.secret_key(**kw) != sk or k2.secret_exponent != k.secret_exponent:
            raise Violation("plain export/import changed the key (%s, %s)" % (curve, kw), case, "export-roundtrip:" + curve)
        want_prefix = rc.CURVE_PK[curve][:2] + "sk"
        if not sk.startswith(want_prefix):
            raise Violation("secret key %s… lacks prefix %s" % (sk[:6], want_prefix), case, "export-prefix:" + curve)
    pw = case.get("passphrase")
    if pw is not None:
        p = bytes.fromhex(pw["hex"]) if "hex" in pw else pw["text"]
        try:
            esk = k.secret_key(passphrase=p)
            k3 = Key.from_encoded_key(esk, passphrase=p)
        except Exception as e:
            raise Violation("encrypted export/import (%s, passphrase %r) raised %r" % (curve, p, e), case,
                            "encrypted-raise:" + curve)
        if not esk.startswith(rc.CURVE_PK[curve][:2] + "esk"):
            raise Violation("encrypted key prefix %s" % esk[:6], case, "encrypted-prefix:" + curve)
        if k3.public_key() != want_pk or k3.secret_exponent != k.secret_exponent:
            raise Violation("encrypted export/import changed the key (%s)" % curve, case, "encrypted-roundtrip:" + curve)
        wrong = (p + b"x") if isinstance(p, bytes) else (p + "x")
        try:
            k4 = Key.from_encoded_key(esk, passphrase=wrong)
        except Exception:
            k4 = None
        if k4 is not None:
            raise Violation("wrong passphrase accepted for %s" % curve, case, "wrong-passphrase:" + curve)


def check_mnemonic(case):
    from pytezos.crypto.key import Key, validate_mnemonic
    words = case["words"]
    lang, form = case.get("lang", "english"), case.get("form", "nfkd")
    text = _spell(words, form, lang)
    wl = _wordlist(lang)
    valid = rc.bip39_is_valid(words, wl)
    try:
        validate_mnemonic(text, language=lang) if lang != "english" else validate_mnemonic(text)
        accepted = True
    except Exception:
        accepted = False
    if accepted != valid:
        raise Violation("validate_mnemonic %s a mnemonic of %d words whose BIP-39 checksum is %s: %r"
                        % ("accepted" if accepted else "rejected", len(words), "valid" if valid else "invalid", text),
                        case, "mnemonic-%s" % ("accepted-invalid" if accepted else "rejected-valid"))
    curve = case["curve"]
    kw = dict(passphrase=case["password"], email=case["email"], curve=curve.encode())
    if lang != "english":
        kw["language"] = lang
    if valid:
        # independent derivation (BIP-39 seed, first 32 bytes as the curve's secret)
        norm = unicodedata.normalize("NFKD", text)
        salt = unicodedata.normalize("NFKD", "mnemonic" + case["email"] + case["password"])
        seed = hashlib.pbkdf2_hmac("sha512", norm.encode(), salt.encode(), 2048)[:32]
        usable = _valid_scalar(curve, seed)

        def derive(*a, **k):
            try:
                key = Key.from_mnemonic(*a, **k)
                return (key.public_key(), key.secret_key())
            except Exception as e:
                return ("raised", type(e).__name__)
        a, b, c = derive(text, **kw), derive(list(words), **kw), derive(text, validate=False, **kw)
        if not (a == b == c):
            raise Violation("from_mnemonic not deterministic / validate flag changes the key: %r %r %r" % (a, b, c),
                            case, "nondeterministic")
        if usable:
            # (a seed that is not a valid scalar of the curve -- common for BLS, where r ~ 0.45 * 2^256 -- cannot
            # yield a key; the statement only requires determinism there)
            if a[0] == "raised":
                raise Violation("from_mnemonic raised %s on a valid mnemonic with a usable seed" % a[1], case,
                                "from_mnemonic-raise")
            want = rc.tz_encode(rc.derive_public(curve, seed), rc.CURVE_PK[curve])
            if a[0] != want:
                raise Violation("from_mnemonic public key %s, independent derivation %s" % (a[0], want), case,
                                "mnemonic-derivation:" + curve)
    else:
        try:
            Key.from_mnemonic(text, **kw)
            ok = True
        except Exception:
            ok = False
        if ok:
            raise Violation("from_mnemonic(validate=True) accepted an invalid mnemonic %r" % text, case,
                            "from_mnemonic-accepted-invalid")
    if lang == "english":
        # the wallet-file route (faucet / fundraiser json: Ed25519, English): same acceptance rule, same key. The file's pkh is the
        # one its sentence derives (independently computed), so only the checksum decides.
        norm = unicodedata.normalize("NFKD", " ".join(words))
        salt = unicodedata.normalize("NFKD", "mnemonic" + case["email"] + case["password"])
        seed = hashlib.pbkdf2_hmac("sha512", norm.encode(), salt.encode(), 2048)[:32]
        pub = rc.derive_public("ed", seed)
        wallet = {"mnemonic": list(words), "password": case["password"], "email": case["email"], "activation_code": "0" * 40,
                  "pkh": rc.tz_encode(rc.blake2b_20(pub), "tz1"), "secret": "0" * 40, "amount": "1"}
        try:
            k = Key.from_faucet(wallet)
            acc = True
        except Exception as e:
            k, acc = e, False
        if acc != valid:
            raise Violation("from_faucet %s a wallet file whose mnemonic (%d words) has %s BIP-39 checksum (%r)" % (
                "accepted" if acc else "rejected", len(words), "a valid" if valid else "an invalid", k if not acc else " ".join(words)), case,
                "from_faucet-%s" % ("accepted-invalid" if acc else "rejected-valid"))
        if acc and k.public_key() != rc.tz_encode(pub, "edpk"):
            raise Violation("from_faucet derives %s, independent derivation %s" % (k.public_key(), rc.tz_encode(pub, "edpk")), case,
                            "from_faucet-derivation")
    return valid


def _valid_scalar(curve, seed):
    if curve == "ed":
        return True
    v = int.from_bytes(seed, "little" if curve == "BL" else "big")
    return 0 < v < gen_keys.ORDER[curve]


def oracle(case):
    if case["mode"] == "bulk":
        return oracle_bulk(case)
    if case["mode"] == "key":
        return check_key(case)
    return check_mnemonic(case)


def replay(case):
    oracle(case)


@st.composite
def key_cases(draw, with_pass):
    curve, sec = draw(gen_keys.curve_and_secret())
    case = {"mode": "key", "curve": curve, "secret": sec.hex()}
    if with_pass:
        if draw(st.booleans()):
            case["passphrase"] = {"text": draw(st.text(min_size=1, max_size=40)
                                                | st.sampled_from(["pw", "пароль", "p w", "🔑", "a" * 40]))}
        else:
            case["passphrase"] = {"hex": draw(st.binary(min_size=1, max_size=24)).hex()}
    return case


@st.composite
def mnemonic_cases(draw):
    lang = draw(st.sampled_from(["english", "english", "english", "french", "spanish", "japanese", "korean", "italian", "czech",
                                 "chinese_simplified", "portuguese"]))
    wl = _wordlist(lang)
    bits = draw(st.sampled_from([128, 160, 192, 224, 256]))
    ent = draw(st.one_of(st.binary(min_size=bits // 8, max_size=bits // 8),
                         st.sampled_from([b"\x00" * (bits // 8), b"\xff" * (bits // 8)])))
    words = rc.bip39_from_entropy(ent, wl)
    mode = draw(st.sampled_from(["valid", "valid", "replace", "swap", "drop", "add", "last"]))
    if mode == "replace":
        i = draw(st.integers(0, len(words) - 1))
        words[i] = draw(st.sampled_from(wl))
    elif mode == "swap":
        i, j = draw(st.integers(0, len(words) - 1)), draw(st.integers(0, len(words) - 1))
        words[i], words[j] = words[j], words[i]
    elif mode == "drop":
        words = words[:-draw(st.integers(1, 3))]
    elif mode == "add":
        words = words + [draw(st.sampled_from(wl)) for _ in range(draw(st.integers(1, 3)))]
    elif mode == "last":  # only the checksum-bearing last word changes
        words[-1] = draw(st.sampled_from(wl))
    form = draw(st.sampled_from(["nfkd", "nfkd", "nfc"] + (["ideographic-space"] if lang == "japanese" else [])))
    return {"mode": "mnemonic", "words": words, "mut": mode, "curve": draw(st.sampled_from(gen_keys.CURVES)), "lang": lang, "form": form,
            "email": draw(st.sampled_from(["", "a@b.c", "ü@x.org"])),
            "password": draw(st.sampled_from(["", "pw", "пароль"]) | st.text(max_size=8))}


def _prop(case, stats):
    res = oracle(case)
    if case["mode"] == "key":
        stats.case(case, "passphrase" in case, "key:%s%s" % (case["curve"], ":encrypted" if "passphrase" in case else ""),
                   sample={k: (v if k != "secret" else v[:16] + "…") for k, v in case.items()})
    else:
        stats.case(case, True, "mnemonic:%s:%s" % (case["mut"], "valid" if res else "invalid"),
                   sample={"words": len(case["words"]), "mut": case["mut"], "valid": res, "curve": case["curve"],
                           "lang": case.get("lang"), "form": case.get("form")})
        stats.label("lang:%s" % case.get("lang", "english"))


def oracle_bulk(case):
    """Many secrets of one curve: public key and address against the independent derivation (shapes such as a coordinate with a leading
    zero byte occur once in 256 keys: they need volume rather than variety)."""
    from pytezos.crypto.key import Key
    curve = case["curve"]
    for i in range(case["start"], case["start"] + case["n"]):
        sec = hashlib.sha256(b"c08-bulk-%s-%d" % (curve.encode(), i)).digest()
        if curve != "ed" and not _valid_scalar(curve, sec):
            continue
        one = dict(case, start=i, n=1)
        try:
            k = Key.from_secret_exponent(sec, curve.encode())
            pk, pkh = k.public_key(), k.public_key_hash()
        except Exception as e:
            raise Violation("key #%d of curve %s: deriving the public key / address raised %r" % (i, curve, e), one, "bulk-raise:" + curve)
        pub = rc.derive_public(curve, sec)
        if pk != rc.tz_encode(pub, rc.CURVE_PK[curve]):
            raise Violation("key #%d of curve %s: public key %s, independent derivation %s" % (i, curve, pk, rc.tz_encode(pub, rc.CURVE_PK[curve])),
                            one, "bulk-public-key:" + curve)
        if pkh != rc.tz_encode(rc.blake2b_20(pub), rc.CURVE_PKH[curve]):
            raise Violation("key #%d of curve %s: address %s is not the hash of its public key" % (i, curve, pkh), one, "bulk-address:" + curve)


def _prop_bulk(case, stats):
    oracle_bulk(case)
    stats.case(case, True, "bulk:" + case["curve"], sample={"curve": case["curve"], "start": case["start"], "n": case["n"]})


def run(h):
    n = 50 if h.quick else 400
    base = (h.seed % 1000) * 100000
    h.run_enum([{"mode": "bulk", "curve": c, "start": base + j * n, "n": n} for c in ("p2", "sp", "ed") for j in range(16)], _prop_bulk, shards=16)
    sh = 8 if h.quick else 16
    # BLS derivation is slow (~0.1 s): shrinking is disabled for the key family
    h.run_given(lambda: key_cases(False), _prop, h.n(40, 1500), shards=sh, name="keys", shrink=False)
    h.run_given(lambda: key_cases(True), _prop, h.n(12, 400), shards=sh, name="encrypted", shrink=False)
    h.run_given(mnemonic_cases, _prop, h.n(60, 3000), shards=sh, name="mnemonics", shrink=False)
