"""C33 — registered global constants expand wherever they occur."""
import copy
from hashlib import blake2b

from hypothesis import strategies as st

from vlib import gen_micheline as gm
from vlib import ref_crypto as rc
from vlib import ref_micheline as rm
from vlib.harness import Violation

PID = "C33"
RULE = ("1..5 registered expressions (Micheline trees over protocol primitives) forming an acyclic reference graph "
        "(later constants reference earlier ones, chains to depth 5); scripts = trees with references in leaf, "
        "argument, sequence-item and root position (type, code and data positions for the contract sub-family), "
        "unknown hashes, and reference-free scripts. Oracle: reference expansion by hash = b58('expr', blake2b-256("
        "reference binary encoding)); result equal, input not mutated, unknown hash raises, registry key equals the "
        "reference hash, ContractInterface.from_micheline(script, context).to_micheline() equals the expanded script; the same "
        "context is asked a second time, and again after constants that were missing have been registered: every call is judged "
        "against the registry of that moment. "
        "Non-trivial: a constant is reached through another constant, or >=2 references in one script. "
        "Distinct = distinct (constants, script).")

PRIMS = [p for p in gm.PROTOCOL_PRIMS if p != "constant"]


def ref_hash(expr):
    return rc.tz_encode(blake2b(rm.encode(expr), digest_size=32).digest(), "expr")


def const_ref(h):
    return {"prim": "constant", "args": [{"string": h}]}


def ref_expand(e, table, depth=0):
    if isinstance(e, list):
        return [ref_expand(x, table, depth) for x in e]
    if isinstance(e, dict) and e.get("prim") == "constant" and e.get("args") and "string" in e["args"][0]:
        h = e["args"][0]["string"]
        if h not in table:
            raise KeyError(h)
        return ref_expand(table[h], table, depth + 1)
    if isinstance(e, dict) and "prim" in e and e.get("args"):
        out = dict(e)
        out["args"] = [ref_expand(a, table, depth) for a in e["args"]]
        return out
    return e


def count_refs(e, table, through=False):
    """(number of references in e, max chain depth reached)"""
    if isinstance(e, list):
        rs = [count_refs(x, table) for x in e]
        return sum(r[0] for r in rs), max([r[1] for r in rs], default=0)
    if isinstance(e, dict) and e.get("prim") == "constant":
        h = e["args"][0]["string"]
        if h in table:
            n, d = count_refs(table[h], table)
            return 1, d + 1
        return 1, 1
    if isinstance(e, dict) and "prim" in e:
        rs = [count_refs(x, table) for x in e.get("args", [])]
        return sum(r[0] for r in rs), max([r[1] for r in rs], default=0)
    return 0, 0


def _register(ctx, c, table, case):
    h = ref_hash(c)
    table[h] = c
    before = set(ctx.global_constants)
    try:
        ctx.register_global_constant(copy.deepcopy(c))
    except Exception as e:
        raise Violation("register_global_constant raised %r on %r" % (e, c), case, "register-raise")
    new = set(ctx.global_constants) - before
    if h not in ctx.global_constants:
        raise Violation("constant %r registered under %s, Tezos hash is %s" % (c, sorted(new), h), case, "wrong-hash")


def _resolve_once(ctx, script, table, case, label):
    arg = copy.deepcopy(script)
    try:
        want = ref_expand(script, table)
        want_err = None
    except KeyError as e:
        want, want_err = None, e
    try:
        got = ctx.resolve_global_constants(arg)
        err = None
    except Exception as e:
        got, err = None, e
    if arg != script:
        raise Violation("resolve_global_constants mutated its input: %r -> %r" % (script, arg), case, "input-mutated")
    if want_err is not None:
        if err is None:
            raise Violation("%sunknown constant %s expanded to %r" % (label, want_err, got), case,
                            "unknown-accepted" + (":later-call" if label else ""))
        return "unknown", None
    if err is not None:
        raise Violation("%sresolve_global_constants raised %r on %r (constants %r)" % (label, err, script, sorted(table)), case,
                        "resolve-raise" + (":later-call" if label else ""))
    if got != want:
        raise Violation("%sexpansion differs: got %r want %r (script %r)" % (label, got, want, script), case,
                        "wrong-expansion" + (":later-call" if label else ""))
    return "ok", want


def oracle(case):
    from pytezos.context.impl import ExecutionContext
    consts = case["constants"]
    late = case.get("late") or []
    ctx = ExecutionContext()
    table = {}
    for c in consts:
        _register(ctx, c, table, case)
    script = case["script"]
    res, want = _resolve_once(ctx, script, table, case, "")
    # the same context is asked again, then after the constants that were missing have been registered: every call is judged
    # against the registry as it stands at that moment (no result of an earlier call may survive)
    res2, _ = _resolve_once(ctx, script, table, case, "second call on the same context: ")
    for c in late:
        _register(ctx, c, table, case)
    if late:
        res, want = _resolve_once(ctx, script, table, case, "call after registering %d more constant(s): " % len(late))
    if res == "unknown":
        return "unknown"
    if case.get("contract"):
        from pytezos.contract.interface import ContractInterface
        try:
            ci = ContractInterface.from_micheline(copy.deepcopy(script), ctx)
            seen = ci.to_micheline()
        except Exception as e:
            raise Violation("ContractInterface.from_micheline raised %r on %r" % (e, script), case, "interface-raise")
        if rm.normalize(seen) != rm.normalize(want):
            raise Violation("ContractInterface sees %r, expanded script is %r" % (seen, want), case,
                            "interface-mismatch")
    return "ok"


def replay(case):
    oracle(case)


def _clean(e):
    """generated trees never contain `constant` nodes of their own (a bare `constant` is not a well-formed reference)"""
    if isinstance(e, list):
        return [_clean(x) for x in e]
    if isinstance(e, dict) and "prim" in e:
        out = dict(e, prim="unit" if e["prim"] == "constant" else e["prim"])
        if e.get("args"):
            out["args"] = [_clean(a) for a in e["args"]]
        return out
    return e


def _tree(n):
    return gm.trees(n, prims=PRIMS, ann=gm.annots_simple()).map(_clean)


def _inject(draw, e, hashes, p=0.25):
    """Replace some nodes of e by references (leaf, argument, sequence item or root position)."""
    if hashes and draw(st.floats(0, 1)) < p:
        return const_ref(draw(st.sampled_from(hashes)))
    if isinstance(e, list):
        return [_inject(draw, x, hashes, p) for x in e]
    if isinstance(e, dict) and "prim" in e and e.get("args"):
        out = dict(e)
        out["args"] = [_inject(draw, a, hashes, p) for a in e["args"]]
        return out
    return e


@st.composite
def generic_case(draw):
    k = draw(st.integers(1, 5))
    consts, hashes = [], []
    for i in range(k):
        body = draw(_tree(6))
        # chain: force a reference to the previous constant half of the time
        if hashes and draw(st.booleans()):
            body = {"prim": "Pair", "args": [const_ref(hashes[-1]), body]} if draw(st.booleans()) else \
                [body, const_ref(draw(st.sampled_from(hashes)))]
        else:
            body = _inject(draw, body, hashes, 0.15)
        consts.append(body)
        hashes.append(ref_hash(body))
    script = draw(_tree(10))
    mode = draw(st.sampled_from(["refs", "refs", "refs", "root", "none", "unknown"]))
    if mode == "root":
        script = const_ref(draw(st.sampled_from(hashes)))
    elif mode == "refs":
        script = _inject(draw, script, hashes, 0.35)
    elif mode == "unknown":
        bogus = rc.tz_encode(draw(st.binary(min_size=32, max_size=32)), "expr")
        base = _inject(draw, script, hashes, 0.2)
        script = [base, const_ref(bogus)]
        if draw(st.booleans()):  # unknown hash only reachable through a registered constant
            inner = [const_ref(bogus)]
            consts.append(inner)
            script = [base, const_ref(ref_hash(inner))]
    if mode == "unknown" and draw(st.integers(0, 3)) == 0:  # nothing at all is registered
        consts = []
        script = [draw(_tree(6)), const_ref(bogus)]
    late = []
    if len(consts) >= 1 and draw(st.integers(0, 2)) == 0:  # some (or all) constants become known only after the first attempts
        k = draw(st.integers(1, len(consts)))
        idx = sorted(draw(st.sets(st.integers(0, len(consts) - 1), min_size=1, max_size=k)))
        late = [consts[i] for i in idx]
        consts = [c for i, c in enumerate(consts) if i not in idx]
    return {"constants": consts, "script": script, "mode": mode, "late": late}


TYPES = [{"prim": "unit"}, {"prim": "nat"}, {"prim": "pair", "args": [{"prim": "int"}, {"prim": "string"}]},
         {"prim": "option", "args": [{"prim": "bytes"}]}, {"prim": "list", "args": [{"prim": "nat"}]}]


@st.composite
def contract_case(draw):
    """parameter/storage/code where type, code block and pushed data come from (chained) constants."""
    pt, stt = draw(st.sampled_from(TYPES)), draw(st.sampled_from(TYPES))
    data_c = {"int": str(draw(st.integers(0, 99)))}
    push = {"prim": "PUSH", "args": [{"prim": "int"}, const_ref(ref_hash(data_c))]}
    block_c = [push, {"prim": "DROP"}]
    tail_c = [{"prim": "CDR"}, const_ref(ref_hash(block_c)), {"prim": "NIL", "args": [{"prim": "operation"}]},
              {"prim": "PAIR"}]
    consts = [pt, stt, data_c, block_c, tail_c]
    use = draw(st.lists(st.booleans(), min_size=4, max_size=4))
    p_expr = const_ref(ref_hash(pt)) if use[0] else pt
    s_expr = const_ref(ref_hash(stt)) if use[1] else stt
    if use[2]:
        code = const_ref(ref_hash(tail_c))
    else:
        code = [{"prim": "CDR"}, const_ref(ref_hash(block_c)) if use[3] else {"prim": "UNIT"}] + \
               ([] if use[3] else [{"prim": "DROP"}]) + [{"prim": "NIL", "args": [{"prim": "operation"}]},
                                                         {"prim": "PAIR"}]
    script = [{"prim": "parameter", "args": [p_expr]}, {"prim": "storage", "args": [s_expr]},
              {"prim": "code", "args": [code]}]
    return {"constants": consts, "script": script, "mode": "contract", "contract": True}


def _prop(case, stats):
    res = oracle(case)
    table = {ref_hash(c): c for c in case["constants"] + (case.get("late") or [])}
    n, d = count_refs(case["script"], table)
    if case.get("late"):
        stats.label("late-registration")
    stats.case(case, d >= 2 or n >= 2, "%s:%s" % (case["mode"], "refs0" if n == 0 else "chain%d" % min(d, 4)),
               sample={"constants": case["constants"][:2], "script": case["script"] if n < 4 else "…", "result": res})


def run(h):
    sh = 8 if h.quick else 16
    h.run_given(generic_case, _prop, h.n(250, 6000), shards=sh, name="generic")
    h.run_given(contract_case, _prop, h.n(30, 400), shards=4 if h.quick else 16, name="contract")
