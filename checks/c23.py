"""C23 — operation groups from any account kind are signed and hashed per protocol."""
from hashlib import blake2b

from hypothesis import strategies as st

from vlib import gen_keys, gen_ops
from vlib import ref_crypto as rc
from vlib import ref_ops
from vlib.harness import Violation

PID = "C23"
RULE = ("(operation group, key, chain id): groups of 1..3 manager contents / failing_noop / activate_account from the "
        "C06 generator, consensus 'endorsement' groups (watermark 0x02 || chain id), groups mixing validation passes; "
        "keys of the four curves (BLS capped: ~1 s per case); random chain ids. Oracle: sign() succeeds; the signature "
        "verifies under an independent verifier over watermark || reference-encoded bytes; binary_payload() == forged || "
        "raw signature (64 or 96 bytes); hash() == b58('o', blake2b-256(payload)); mixed validation passes are "
        "rejected; groups derived from a signed and hashed group (operation(...).sign(), sign() again) are signed and "
        "hashed over their own bytes. Volume sub-check: one transfer re-signed under thousands of consecutive counters per "
        "curve so that rare signature shapes (leading zero bytes in r or s) occur. Non-trivial: key is not tz1, or the group is a consensus operation. Distinct = distinct case.")


def _ref_forged(g):
    if g["contents"][0]["kind"] == "endorsement":
        return rc.tz_decode(g["branch"])[1] + b"".join(b"\x00" + int(c["level"]).to_bytes(4, "big") for c in g["contents"])
    return ref_ops.encode_group(g)


def oracle(case):
    from pytezos.context.impl import ExecutionContext
    from pytezos.crypto.key import Key
    from pytezos.operation.group import OperationGroup
    curve = case["curve"]
    key = Key.from_secret_exponent(bytes.fromhex(case["secret"]), curve.encode())
    g = case["group"]
    # the group is bound to case["chain_id"]; the client context it was built from may know no chain, the same one, or another one
    ctx = ExecutionContext(key=key, chain_id=case["ctx_chain_id"]) if case.get("ctx_chain_id") else ExecutionContext(key=key)
    opg = OperationGroup(context=ctx, contents=[dict(c) for c in g["contents"]],
                         branch=g["branch"], chain_id=case["chain_id"], protocol="PtTALLiNtPec7mE7yY4m3k26J8Qukef3E3ehzhfXgFZKGtDdAXu")
    kinds = [c["kind"] for c in g["contents"]]
    passes = {0 if k == "endorsement" else (-1 if k == "failing_noop" else (2 if k == "activate_account" else 3))
              for k in kinds}
    try:
        signed = opg.sign()
        err = None
    except Exception as e:
        signed, err = None, e
    if len(passes) > 1:
        if err is None:
            raise Violation("group mixing validation passes %s was signed" % kinds, case, "mixed-accepted")
        return "mixed-rejected"
    if err is not None:
        raise Violation("sign() raised %r for a %s key on %s" % (err, curve, kinds), case, "sign-raise:" + curve)
    _check_signed(signed, g, case, key, curve, "")
    # derived groups: every group spawned from an already signed / hashed one (operation(), sign() again) is signed and
    # hashed over ITS OWN bytes
    cur, gg = signed, {"branch": g["branch"], "contents": list(g["contents"])}
    for k, extra in enumerate(case.get("extra") or []):
        gg = {"branch": gg["branch"], "contents": gg["contents"] + [extra]}
        try:
            cur = cur.operation(dict(extra)).sign()
        except Exception as e:
            raise Violation("operation(...).sign() on a signed group raised %r (%s key)" % (e, curve), case, "derived-sign-raise")
        _check_signed(cur, gg, case, key, curve, "derived group #%d: " % (k + 1))
    if case.get("extra") is not None:
        again = signed.sign()
        _check_signed(again, g, case, key, curve, "re-signed group: ")
    return "ok"


def _check_signed(signed, g, case, key, curve, what):
    kinds = [c["kind"] for c in g["contents"]]
    forged = _ref_forged(g)
    dec = rc.tz_decode(signed.signature)
    if dec is None or len(dec[1]) != (96 if curve == "BL" else 64):
        raise Violation("%ssignature %r is not a well-formed %s signature" % (what, signed.signature, curve), case,
                        "sig-form:" + curve)
    raw = dec[1]
    wm = (b"\x02" + rc.tz_decode(case["chain_id"])[1]) if kinds[0] == "endorsement" else b"\x03"
    if not rc.verify_independent(curve, key.public_point, wm + forged, raw):
        other = b"\x03" if wm != b"\x03" else b"\x02" + rc.tz_decode(case["chain_id"])[1]
        hint = ""
        if rc.verify_independent(curve, key.public_point, other + forged, raw):
            hint = " (it verifies under the other watermark)"
        elif rc.verify_independent(curve, key.public_point, forged, raw):
            hint = " (it verifies without any watermark)"
        raise Violation("%ssignature does not verify over watermark %s || forged bytes%s; kinds %s" % (what, wm.hex(), hint, kinds),
                        case, "bad-signature:%s%s" % ("consensus" if wm != b"\x03" else "manager", ":derived" if what else ""))
    try:
        payload = signed.binary_payload()
        h = signed.hash()
        h2 = signed.hash()
    except Exception as e:
        raise Violation("%sbinary_payload/hash raised %r (%s key)" % (what, e, curve), case, "hash-raise:" + curve)
    if payload != forged + raw:
        raise Violation("%sbinary_payload is not forged || raw signature (len %d vs %d)" % (what, len(payload), len(forged + raw)),
                        case, "payload" + (":derived" if what else ""))
    want = rc.tz_encode(blake2b(forged + raw, digest_size=32).digest(), "o")
    if h != want or h2 != want:
        raise Violation("%shash %s / %s, expected %s" % (what, h, h2, want), case, "hash" + (":derived" if what else ""))


def oracle_bulk(case):
    """One account, one transfer re-signed under `n` consecutive counters: rare signature shapes (a component with leading
    zero bytes) need volume. Every signature must verify independently and hash/payload must be recomputable."""
    from pytezos.context.impl import ExecutionContext
    from pytezos.crypto.key import Key
    from pytezos.operation.group import OperationGroup
    curve = case["curve"]
    key = Key.from_secret_exponent(bytes.fromhex(case["secret"]), curve.encode())
    short = 0
    for i in range(case["start"], case["start"] + case["n"]):
        content = dict(case["content"], counter=str(i), source=key.public_key_hash())
        g = {"branch": case["branch"], "contents": [content]}
        opg = OperationGroup(context=ExecutionContext(key=key), contents=[dict(content)], branch=g["branch"],
                             chain_id=case["chain_id"], protocol="PtTALLiNtPec7mE7yY4m3k26J8Qukef3E3ehzhfXgFZKGtDdAXu")
        one = dict(case, start=i, n=1)
        try:
            signed = opg.sign()
        except Exception as e:
            raise Violation("sign() raised %r at counter %d (%s key)" % (e, i, curve), one, "bulk-sign-raise:" + curve)
        _check_signed(signed, g, one, key, curve, "counter %d: " % i)
        raw = rc.tz_decode(signed.signature)[1]
        if raw[0] == 0 or raw[32] == 0:
            short += 1
    return short


def replay(case):
    if case.get("mode") == "bulk":
        oracle_bulk(case)
        return
    oracle(case)


@st.composite
def cases(draw, curves):
    curve, sec = draw(gen_keys.curve_and_secret(curves))
    mode = draw(st.sampled_from(["manager", "manager", "other", "consensus", "mixed"]))
    nat = gen_ops.small_nat()
    extra = None
    if mode == "manager":
        contents = [draw(gen_ops.manager_content(nat=nat)) for _ in range(draw(st.integers(1, 3)))]
        if draw(st.booleans()):
            extra = [draw(gen_ops.manager_content(nat=nat)) for _ in range(draw(st.integers(1, 2)))]
    elif mode == "other":
        contents = [draw(gen_ops.other_content())]
    elif mode == "consensus":
        contents = [{"kind": "endorsement", "level": draw(st.integers(0, 2 ** 31 - 1))}]
    else:
        contents = [draw(gen_ops.manager_content(nat=nat)),
                    draw(st.sampled_from([{"kind": "endorsement", "level": 5}, {"kind": "failing_noop", "arbitrary": "x"},
                                          {"kind": "activate_account",
                                           "pkh": "tz1Ke2h7sDdakHJQh8WX4Z372du1KChsksyU", "secret": "00" * 20}]))]
        if draw(st.booleans()):
            contents.reverse()
    chain = rc.tz_encode(draw(st.binary(min_size=4, max_size=4)), "Net")
    ctx_chain = draw(st.sampled_from([None, None, chain, "other"]))
    if ctx_chain == "other":
        ctx_chain = rc.tz_encode(draw(st.binary(min_size=4, max_size=4)), "Net")
    return {"curve": curve, "secret": sec.hex(), "mode": mode, "chain_id": chain, "ctx_chain_id": ctx_chain,
            "group": {"branch": draw(gen_ops.branch()), "contents": contents}, "extra": extra}


def _prop(case, stats):
    res = oracle(case)
    stats.case(case, case["curve"] != "ed" or case["mode"] == "consensus", "%s:%s" % (case["curve"], case["mode"]),
               sample={"curve": case["curve"], "kinds": [c["kind"] for c in case["group"]["contents"]], "result": res})


@st.composite
def bulk_cases(draw, curve, n):
    _, sec = draw(gen_keys.curve_and_secret([curve]))
    content = draw(gen_ops.manager_content(nat=gen_ops.small_nat()))
    return {"mode": "bulk", "curve": curve, "secret": sec.hex(), "content": content, "branch": draw(gen_ops.branch()),
            "chain_id": rc.tz_encode(draw(st.binary(min_size=4, max_size=4)), "Net"), "start": draw(st.integers(1, 10 ** 6)), "n": n}


def _prop_bulk(case, stats):
    short = oracle_bulk(case)
    stats.case(case, short > 0, "bulk:%s" % case["curve"], sample={"curve": case["curve"], "kind": case["content"]["kind"],
                                                                  "start": case["start"], "n": case["n"]})
    stats.extra["bulk_signatures:" + case["curve"]] += case["n"]
    stats.extra["bulk_signatures_with_leading_zero_component:" + case["curve"]] += short


def run(h):
    sh = 8 if h.quick else 16
    for curve, n in (("p2", 120), ("sp", 200), ("ed", 200)):
        h.run_given(lambda c=curve, k=n: bulk_cases(c, k), _prop_bulk, h.n(2, 40), shards=16, name="bulk-" + curve, shrink=False)
    h.run_given(lambda: cases(["ed", "sp", "p2"]), _prop, h.n(60, 1500), shards=sh, name="fast", shrink=False)
    h.run_given(lambda: cases(["BL"]), _prop, h.n(3, 40), shards=sh, name="bls", shrink=False)
