"""C05 thorough: atheris differential campaign on unforge_micheline (oracle (d) inside the target)."""
from vlib import fuzz
from vlib import ref_micheline as rm
from vlib.harness import Violation


def fuzz_one(data):
    from checks import c05
    reason, raised = c05.check_bytes(data, {"mode": "bytes", "data": data.hex(), "mut": "atheris"})
    return (len(data) > 1 and data[0] <= 10), (reason or "ref-accepts")


def campaign(h):
    from checks import c05
    import hypothesis
    from hypothesis import strategies as st
    from vlib import gen_micheline as gm
    corpus = [rm.encode(e) for e in [
        {"int": "0"}, {"int": "-64"}, {"string": "abc"}, {"bytes": "00ff"}, [], [{"prim": "Unit"}],
        {"prim": "Pair", "args": [{"int": "1"}, {"string": "x"}], "annots": ["%a"]},
        {"prim": "pair", "args": [{"prim": "int"}, {"prim": "nat"}, {"prim": "unit"}]},
        {"prim": "PUSH", "args": [{"prim": "int"}, {"int": str(2 ** 70)}]},
        {"prim": "DIP", "args": [{"int": "2"}, [{"prim": "DROP"}]], "annots": ["@x", ":t"]}]]

    def reval(data):
        c05.check_bytes(data, {"mode": "bytes", "data": data.hex(), "mut": "atheris"})

    fuzz.campaign(h, "c05_fuzz", corpus, runs=1_500_000, max_len=256, revalidate=reval)
