"""C07 — signing and verification are correct for every key kind."""
from hypothesis import strategies as st

from vlib import gen_keys
from vlib import interp
from vlib import ref_crypto as rc
from vlib.harness import Violation

PID = "C07"
RULE = ("(curve, secret key, message as bytes / hex text in lower, upper or mixed case / 0x-prefixed hex, alteration): keys of the four curves (valid scalars incl. 1, n-1, high-bit "
        "patterns; BLS capped because each case costs ~1 s); messages = bytes 0..512 or hex strings with/without 0x; "
        "alterations (judged before or after the genuine triple, in one process): one bit of the message, one bit of the encoded public key, the "
        "signature bytes under another curve's prefix, one bit/byte of the decoded signature (re-encoded with a valid "
        "checksum), another key of the same curve, a key of another curve, curve-specific vs generic prefix. Oracle: "
        "sign succeeds for generic in {False, True}; verify accepts; an independent implementation (cryptography: "
        "Ed25519 / ECDSA over the Blake2b-256 digest; py_ecc pairing equation for BLS over the message) accepts; "
        "every altered triple is rejected; CHECK_SIGNATURE returns the same verdict. Non-trivial: message non-empty "
        "and at least one alteration exercised. Volume sub-check: per curve (Ed25519, secp256k1, P-256) thousands of "
        "consecutive messages under generated keys are signed and verified (pytezos and independent), so that rare "
        "signature shapes (r or s with leading zero bytes, 1 in 128) occur; non-trivial there: the batch contained such a "
        "signature. Distinct = distinct case.")


def _key(curve, secret_hex, form=None):
    """form: how the secret reaches pytezos -- as the curve's scalar / seed, or (Ed25519) in the 64-byte `seed || public key` form,
    raw or as its 98-character edsk spelling"""
    from pytezos.crypto.key import Key
    k = Key.from_secret_exponent(bytes.fromhex(secret_hex), curve.encode())
    if curve == "ed" and form in ("ed64-raw", "ed64-text"):
        pub = rc.derive_public("ed", bytes.fromhex(secret_hex))
        full = bytes.fromhex(secret_hex) + pub
        k2 = Key.from_secret_exponent(full, b"ed") if form == "ed64-raw" else Key.from_encoded_key(rc.tz_encode(full, "edsk"))
        return k2
    return k


def _check_sig_instr(pk, sig, msg: bytes, case, what):
    code = [interp.push({"prim": "bytes"}, {"bytes": msg.hex()}),
            interp.push({"prim": "signature"}, {"string": sig}),
            interp.push({"prim": "key"}, {"string": pk}), {"prim": "CHECK_SIGNATURE"}]
    stk, out, err = interp.run(code)
    if err is not None:
        raise Violation("CHECK_SIGNATURE failed (%s): %r" % (what, err), case, "check_signature-raise:" + what)
    t, v = interp.read_item(stk.items[0])
    return v == {"prim": "True"}


SIG_AS_BYTES = [False]


def _verify(key, sig, msg):
    try:
        if SIG_AS_BYTES[0] and isinstance(sig, str):   # verify() takes the signature as text or as the same text in bytes
            sig = sig.encode()
        return bool(key.verify(sig, msg)), None
    except ValueError as e:
        return False, e
    except Exception as e:  # documented contract: ValueError if invalid
        return False, e


def oracle(case):
    SIG_AS_BYTES[0] = bool(case.get("sig_bytes"))
    curve = case["curve"]
    key = _key(curve, case["secret"], case.get("key_form"))
    pub = rc.derive_public(curve, bytes.fromhex(case["secret"])) if curve != "BL" else key.public_point
    if key.public_point != pub:
        raise Violation("the key built from the %s form of an Ed25519 secret has public point %s, the secret's public key is %s" % (
            case.get("key_form"), key.public_point.hex(), pub.hex()), case, "key-form:" + str(case.get("key_form")))
    pk = key.public_key()
    if "msg_hex_str" in case:
        msg_arg = case["msg_hex_str"]
        msg = bytes.fromhex(msg_arg[2:] if msg_arg.startswith("0x") else msg_arg)
    else:
        msg = bytes.fromhex(case["msg"])
        msg_arg = msg
    sigs = {}
    for generic in (False, True):
        try:
            sigs[generic] = key.sign(msg_arg, generic=generic)
        except Exception as e:
            raise Violation("sign(generic=%s) raised %r for a %s key" % (generic, e, curve), case,
                            "sign-raise:%s:generic=%s" % (curve, generic))
    def own():
        for generic, sig in sigs.items():
            dec = rc.tz_decode(sig)
            if dec is None:
                raise Violation("signature %s… is not a valid base58 signature" % sig[:12], case, "sig-encoding:" + curve)
            kind, raw = dec
            want_kind = "sig" if (generic and curve != "BL") else rc.CURVE_SIG[curve]
            if kind != want_kind:
                raise Violation("sign(generic=%s) for %s returned a %s-prefixed signature" % (generic, curve, kind), case,
                                "sig-prefix:%s:generic=%s" % (curve, generic))
            ok, err = _verify(key, sig, msg_arg)
            if not ok:
                raise Violation("verify rejected the key's own signature (%s, generic=%s): %r" % (curve, generic, err),
                                case, "verify-own:" + curve)
            if not rc.verify_independent(curve, pub, msg, raw):
                raise Violation("independent %s verifier rejects pytezos' signature over %s" % (curve, msg.hex()[:40]),
                                case, "independent-reject:" + curve)
            if not _check_sig_instr(pk, sig, msg, case, "own"):
                raise Violation("CHECK_SIGNATURE false for a valid %s signature (generic=%s)" % (curve, generic), case,
                                "check_signature-own:" + curve)

    alt = case.get("alt")
    if not (alt and case.get("alt_first")):
        own()
    if not alt:
        return
    sig = sigs[case.get("alt_generic", False)]
    dec = rc.tz_decode(sig)
    if dec is None:
        raise Violation("signature %s… is not a valid base58 signature" % sig[:12], case, "sig-encoding:" + curve)
    kind, raw = dec
    what = alt["kind"]
    a_key, a_sig, a_msg = key, sig, msg
    a_pk = None
    if what == "msg-bit":
        if not msg:
            a_msg = b"\x00"
        else:
            b = bytearray(msg)
            b[alt["i"] % len(b)] ^= 1 << (alt["bit"] % 8)
            a_msg = bytes(b)
    elif what in ("sig-bit", "sig-byte"):
        b = bytearray(raw)
        i = alt["i"] % len(b)
        if what == "sig-bit":
            b[i] ^= 1 << (alt["bit"] % 8)
        else:
            b[i] = (b[i] + 1 + alt["bit"]) % 256
        a_sig = rc.tz_encode(bytes(b), kind)
    elif what == "sig-foreign":   # the same bytes written under another curve's signature prefix: not a signature of this key's scheme
        if curve == "BL":
            return
        a_sig = rc.tz_encode(raw, rc.CURVE_SIG[alt["curve"]])
    elif what == "other-key":
        a_key = _key(curve, alt["secret"])
        if a_key.public_point == pub:
            return
    elif what == "other-curve":
        a_key = _key(alt["curve"], alt["secret"])
    elif what == "key-bit":       # one bit of the encoded public key changed (valid checksum): another key, or no key at all
        from pytezos.crypto.key import Key
        b = bytearray(pub)
        b[alt["i"] % len(b)] ^= 1 << (alt["bit"] % 8)
        a_pk = rc.tz_encode(bytes(b), rc.CURVE_PK[curve])
        try:
            a_key = Key.from_encoded_key(a_pk)
        except Exception:
            a_key = None   # refused at import: rejected
    if a_key is not None:
        ok, err = _verify(a_key, a_sig, a_msg)
        if ok:
            raise Violation("verify accepted an altered triple (%s, %s key)" % (what, curve), case, "accepts-altered:" + what)
        if not isinstance(err, ValueError) and what != "key-bit":  # (an altered key encoding may be no key at all: any refusal counts)
            raise Violation("verify raised %r instead of ValueError for an altered triple (%s)" % (err, what), case,
                            "reject-not-valueerror:%s:%s" % (what, type(err).__name__))
    if what == "key-bit":
        try:
            verdict = _check_sig_instr(a_pk, a_sig, a_msg, case, what)
        except Violation:
            verdict = False   # the altered key literal is refused by PUSH: rejected
    else:
        verdict = _check_sig_instr(a_key.public_key(), a_sig, a_msg, case, what)
    if verdict:
        raise Violation("CHECK_SIGNATURE true for an altered triple (%s)" % what, case, "check_signature-altered:" + what)
    own()   # the genuine triple is still accepted afterwards (and, with alt_first, was not judged before)


def oracle_bulk(case):
    """One key, `n` consecutive messages: every signature verifies (pytezos and independent). Rare signature shapes
    (an r or s component with leading zero bytes: 1 in 128 signatures) need volume rather than variety."""
    curve = case["curve"]
    key = _key(curve, case["secret"])
    pub = key.public_point
    short = 0
    for i in range(case["start"], case["start"] + case["n"]):
        msg = case["prefix"].encode() + str(i).encode()
        try:
            sig = key.sign(msg, generic=bool(i & 1))
        except Exception as e:
            raise Violation("sign raised %r for message #%d (%s key)" % (e, i, curve), dict(case, start=i, n=1), "bulk-sign-raise:" + curve)
        dec = rc.tz_decode(sig)
        if dec is None or len(dec[1]) != 64:
            raise Violation("signature of message #%d is not 64 raw bytes: %r" % (i, sig), dict(case, start=i, n=1), "bulk-sig-form:" + curve)
        raw = dec[1]
        ok, err = _verify(key, sig, msg)
        if not ok:
            raise Violation("verify rejected the key's own signature over %r (%s key; raw r=%s… s=%s…): %r" % (
                msg, curve, raw[:4].hex(), raw[32:36].hex(), err), dict(case, start=i, n=1), "bulk-verify-own:" + curve)
        if not rc.verify_independent(curve, pub, msg, raw):
            raise Violation("independent %s verifier rejects pytezos' signature over %r" % (curve, msg), dict(case, start=i, n=1),
                            "bulk-independent-reject:" + curve)
        if raw[0] == 0 or raw[32] == 0:
            short += 1
    return short


def replay(case):
    if case.get("mode") == "bulk":
        oracle_bulk(case)
        return
    oracle(case)


@st.composite
def cases(draw, curves):
    curve = draw(st.sampled_from(curves))
    sec = draw(gen_keys.secret(curve))
    case = {"curve": curve, "secret": sec.hex(), "sig_bytes": draw(st.integers(0, 2)) == 0}
    if curve == "ed":
        case["key_form"] = draw(st.sampled_from([None, None, "ed64-raw", "ed64-text"]))
    m = draw(st.one_of(st.binary(max_size=64), st.binary(min_size=65, max_size=512),
                       st.sampled_from([b"", b"\x00", b"\x03" + b"\x11" * 40])))
    form = draw(st.integers(0, 3))
    spell = draw(st.sampled_from([str.lower, str.lower, str.upper, lambda h: "".join(c.upper() if i % 3 == 0 else c for i, c in enumerate(h))]))
    if form == 0:
        case["msg_hex_str"] = spell(m.hex())
    elif form == 1:
        case["msg_hex_str"] = "0x" + spell(m.hex())
    else:
        case["msg"] = m.hex()
    kind = draw(st.sampled_from(["msg-bit", "sig-bit", "sig-byte", "other-key", "other-curve", "key-bit", "key-bit", "sig-foreign", None]))
    if kind:
        alt = {"kind": kind, "i": draw(st.integers(0, 600)), "bit": draw(st.integers(0, 7))}
        if kind == "other-key":
            alt["secret"] = draw(gen_keys.secret(curve)).hex()
        if kind == "other-curve":
            oc = draw(st.sampled_from([c for c in ["ed", "sp", "p2"] if c != curve]))
            alt["curve"], alt["secret"] = oc, draw(gen_keys.secret(oc)).hex()
        if kind == "sig-foreign":
            alt["curve"] = draw(st.sampled_from([c for c in ["ed", "sp", "p2"] if c != curve]))
        case["alt"] = alt
        case["alt_generic"] = draw(st.booleans())
        case["alt_first"] = draw(st.booleans())
    return case


def _prop(case, stats):
    oracle(case)
    m = case.get("msg", case.get("msg_hex_str", ""))
    nt = len(m.replace("0x", "")) > 0 and bool(case.get("alt"))
    stats.case(case, nt, "%s:%s" % (case["curve"], (case.get("alt") or {}).get("kind", "no-alteration")),
               sample={k: (v if k != "secret" else v[:12] + "…") for k, v in case.items()})


@st.composite
def bulk_cases(draw, curve, n):
    return {"mode": "bulk", "curve": curve, "secret": draw(gen_keys.secret(curve)).hex(), "prefix": draw(st.sampled_from(["m", "msg #", "x"])),
            "start": draw(st.integers(0, 10 ** 6)), "n": n}


def _prop_bulk(case, stats):
    short = oracle_bulk(case)
    stats.case(case, short > 0, "bulk:%s" % case["curve"], sample={k: (v if k != "secret" else v[:12] + "…") for k, v in case.items()})
    stats.extra["bulk_signatures:" + case["curve"]] += case["n"]
    stats.extra["bulk_signatures_with_leading_zero_component:" + case["curve"]] += short


def run(h):
    sh = 8 if h.quick else 16
    # volume: 16 shards x cases x n signatures per curve (p2 ~3 ms per sign+verify, the others ~0.2 ms)
    for curve, n in (("p2", 150), ("sp", 400), ("ed", 400)):
        h.run_given(lambda c=curve, k=n: bulk_cases(c, k), _prop_bulk, h.n(2, 40), shards=16, name="bulk-" + curve, shrink=False)
    h.run_given(lambda: cases(["ed", "sp", "p2"]), _prop, h.n(60, 2500), shards=sh, name="fast", shrink=False)
    # BLS: sign 0.1 s, verify 0.3-0.5 s, independent pairing check 0.5 s
    h.run_given(lambda: cases(["BL"]), _prop, h.n(2, 40), shards=sh, name="bls", shrink=False)
