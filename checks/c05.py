"""C05 — Micheline binary encoding round-trips and decodes strictly."""
import os

from hypothesis import strategies as st

from vlib import gen_micheline as gm
from vlib import ref_micheline as rm
from vlib.harness import Violation

PID = "C05"
RULE = ("Micheline trees over the 157 protocol primitives (0..4 args so every tag 3..9 occurs, grammar annotations, "
        "ints to 4096 bits at Zarith boundaries and in alternative spellings, unicode strings, bytes, nested "
        "sequences; <=30 leaves quick / 200 thorough); near-pairs (one int changed, sign flipped, annotation "
        "moved/added, arg wrapped in a sequence, arg count across the 2/3 boundary); byte strings = valid encodings "
        "mutated by truncation/extension/bit flip/byte set/length-prefix edit/Zarith padding/insert/delete (+ atheris "
        "in thorough). Oracle: forge == reference encoder, unforge(forge(e)) == normalize(e), distinct normal forms "
        "encode differently, primitive table == independent table, reference strict decoder rejects (unknown tag/"
        "prim, truncated/inconsistent length, trailing bytes, non-minimal int) => unforge_micheline raises; both "
        "accept => same tree. Non-trivial: tree depth>=2 or |int|>=64; for byte strings: decoding got past the first "
        "tag. Distinct = distinct tree / byte string.")


def _forge(e, case):
    from pytezos.michelson.forge import forge_micheline
    try:
        return forge_micheline(e)
    except Exception as ex:
        raise Violation("forge_micheline raised %r on %r" % (ex, e), case, "forge-raise:%s" % type(ex).__name__)


def check_tree(e, case):
    from pytezos.michelson.forge import unforge_micheline
    got = _forge(e, case)
    want = rm.encode(e)
    if got != want:
        raise Violation("forge_micheline(%r) = %s, reference %s" % (e, got.hex(), want.hex()), case, "encode-mismatch")
    try:
        back = unforge_micheline(got)
    except Exception as ex:
        raise Violation("unforge_micheline raised %r on its own encoding of %r" % (ex, e), case, "roundtrip-raise")
    if rm.normalize(back) != rm.normalize(e) or back != rm.normalize(e):
        raise Violation("round trip changed the expression: %r -> %r" % (rm.normalize(e), back), case, "roundtrip")
    return got


def check_pair(e1, e2, case):
    n1, n2 = rm.normalize(e1), rm.normalize(e2)
    b1, b2 = _forge(e1, case), _forge(e2, case)
    if n1 != n2 and b1 == b2:
        raise Violation("different expressions encode to the same bytes %s: %r vs %r" % (b1.hex(), n1, n2), case,
                        "not-injective")
    if n1 == n2 and b1 != b2:
        raise Violation("equal expressions (after normalisation) encode differently: %r" % (n1,), case,
                        "spelling-dependent")


def check_bytes(data, case):
    from pytezos.michelson.forge import unforge_micheline
    try:
        ref = rm.decode(data)
        reason = None
    except rm.DecodeError as de:
        ref, reason = None, de.reason
    try:
        got = unforge_micheline(data)
        raised = None
    except Exception as ex:
        got, raised = None, ex
    if reason in rm.STRICT_REASONS and raised is None:
        raise Violation("unforge_micheline accepted %s (reference: %s) -> %r" % (data.hex(), reason, got), case,
                        "accepts-invalid:" + reason)
    if reason is None and raised is None and not rm.uses_unasserted(ref):
        if rm.normalize(got) != rm.normalize(ref):
            raise Violation("decoders disagree on %s: pytezos %r, reference %r" % (data.hex(), got, ref), case,
                            "decode-mismatch")
    return reason, raised


def check_table(case):
    from pytezos.michelson.tags import prim_tags
    for i, p in enumerate(rm.PRIMS):
        if i in rm.UNASSERTED_TAGS:
            continue
        if prim_tags.get(p) != bytes([i]):
            raise Violation("primitive %s: tag %r, protocol tag 0x%02x" % (p, prim_tags.get(p), i), case, "table:" + p)
    for p, t in prim_tags.items():
        if t[0] < len(rm.PRIMS) and rm.PRIMS[t[0]] != p and t[0] not in rm.UNASSERTED_TAGS:
            raise Violation("primitive %s has tag 0x%02x which belongs to %s" % (p, t[0], rm.PRIMS[t[0]]), case,
                            "table-extra:" + p)


def oracle(case):
    m = case["mode"]
    if m == "tree":
        return check_tree(case["e"], case)
    if m == "pair":
        return check_pair(case["e1"], case["e2"], case)
    if m == "bytes":
        return check_bytes(bytes.fromhex(case["data"]), case)
    return check_table(case)


def replay(case):
    oracle(case)


def _respell(draw, e):
    """Alternative integer spellings / explicit empty lists (normalisation must make them equal)."""
    if isinstance(e, list):
        return [_respell(draw, x) for x in e]
    if "int" in e:
        v = int(e["int"])
        k = draw(st.integers(0, 5))
        if k == 0:
            return {"int": ("-00%d" % -v) if v < 0 else ("00%d" % v)}
        if k == 1 and v == 0:
            return {"int": "-0"}
        if k == 2 and v >= 0:
            return {"int": "+%d" % v}
        return e
    if "prim" in e:
        out = {"prim": e["prim"]}
        if e.get("args"):
            out["args"] = [_respell(draw, a) for a in e["args"]]
        elif draw(st.booleans()):
            out["args"] = []
        if e.get("annots"):
            out["annots"] = e["annots"]
        elif draw(st.booleans()):
            out["annots"] = []
        return out
    return e


def _paths(e, pre=()):
    yield pre
    if isinstance(e, list):
        for i, x in enumerate(e):
            yield from _paths(x, pre + (i,))
    elif "prim" in e:
        for i, x in enumerate(e.get("args", [])):
            yield from _paths(x, pre + (i,))


def _get(e, path):
    for i in path:
        e = e[i] if isinstance(e, list) else e["args"][i]
    return e


def _set(e, path, new):
    if not path:
        return new
    if isinstance(e, list):
        out = list(e)
        out[path[0]] = _set(e[path[0]], path[1:], new)
        return out
    out = dict(e)
    out["args"] = list(e["args"])
    out["args"][path[0]] = _set(e["args"][path[0]], path[1:], new)
    return out


@st.composite
def near_pair(draw, max_leaves):
    e = draw(gm.trees(max_leaves))
    path = draw(st.sampled_from(list(_paths(e))))
    node = _get(e, path)
    kind = draw(st.sampled_from(["int", "sign", "annot", "wrap", "argc", "respell", "strbytes"]))
    new = None
    if kind == "respell":
        return {"mode": "pair", "e1": e, "e2": _respell(draw, e), "kind": kind}
    if isinstance(node, dict) and "int" in node:
        v = int(node["int"])
        new = {"int": str(-v if kind == "sign" else v + draw(st.sampled_from([1, -1, 64, 128, 2 ** 62])))}
    elif isinstance(node, dict) and "prim" in node:
        if kind == "annot":
            an = list(node.get("annots", []))
            if an and draw(st.booleans()):
                an = an[:-1]
            else:
                an = an + [draw(gm.annot())]
            new = dict(node)
            new["annots"] = an
            if not an:
                new.pop("annots")
        elif kind == "argc":
            new = dict(node)
            args = list(node.get("args", []))
            if len(args) >= 3 and draw(st.booleans()):
                args = args[:2]
            else:
                args = args + [{"prim": "Unit"}] * draw(st.integers(1, 2))
            new["args"] = args
        else:
            new = [node]
    elif isinstance(node, dict) and "string" in node:
        new = {"bytes": node["string"].encode().hex()} if kind == "strbytes" else {"string": node["string"] + "x"}
    elif isinstance(node, dict) and "bytes" in node:
        new = {"string": ""} if kind == "strbytes" else {"bytes": node["bytes"] + "00"}
    else:
        new = {"prim": "Unit", "args": [node]} if kind == "wrap" else [node]
    return {"mode": "pair", "e1": e, "e2": _set(e, path, new), "kind": kind}


def run(h):
    max_leaves = 30 if h.quick else 200
    h.run_enum([{"mode": "table"}], lambda c, s: (oracle(c), s.case(c, True, "table"))[1], shards=1)

    def tree_cases():
        return st.builds(lambda e: {"mode": "tree", "e": e}, gm.trees(max_leaves))

    def prop_tree(case, stats):
        e = case["e"]
        oracle(case)
        nt = gm.depth(e) >= 2 or _has_big_int(e)
        stats.case(case, nt, "tree:depth%d" % min(gm.depth(e), 4), sample=_short(e))

    def prop_pair(case, stats):
        oracle(case)
        differ = rm.normalize(case["e1"]) != rm.normalize(case["e2"])
        stats.case(case, True, "pair:%s:%s" % (case["kind"], "differ" if differ else "equal"),
                   sample={"e1": _short(case["e1"]), "e2": _short(case["e2"])})

    @st.composite
    def byte_cases(draw):
        e = draw(gm.trees(min(max_leaves, 40)))
        data = rm.encode(e)
        kind, mutated = draw(gm.mutate_bytes(data))
        if draw(st.integers(0, 9)) == 0:  # second mutation
            k2, mutated = draw(gm.mutate_bytes(mutated))
            kind += "+" + k2
        return {"mode": "bytes", "data": mutated.hex(), "mut": kind}

    def prop_bytes(case, stats):
        reason, raised = oracle(case)
        data = bytes.fromhex(case["data"])
        past_first = len(data) > 1 and data[0] <= 10
        stats.case(case, past_first, "bytes:%s" % (reason or "ref-accepts"),
                   sample={"data": case["data"][:80], "mut": case["mut"], "reference": reason or "accepts",
                           "pytezos": "raises" if raised else "accepts"})

    # every byte string of length 1 and 2, and every (node tag, primitive tag) pair followed by a Unit argument tail
    short = [bytes([a]) for a in range(256)] + [bytes([a, b]) for a in range(256) for b in range(256)]
    short += [bytes([t, p]) + b"\x03\x0b" * ((t - 3) // 2) + (b"\x00\x00\x00\x00" if (t - 3) % 2 else b"")
              for t in range(3, 9) for p in range(256)]
    h.run_enum([{"mode": "bytes", "data": d.hex(), "mut": "short-exhaustive"} for d in short], prop_bytes, shards=16)
    h.coverage_extra["exhaustive_subdomain"] = "all byte strings of length <= 2; all prim tags under node tags 3..8"
    sh = 8 if h.quick else 16
    h.run_given(tree_cases, prop_tree, h.n(350, 6000), shards=sh, name="trees")
    h.run_given(lambda: near_pair(max_leaves), prop_pair, h.n(200, 3000), shards=sh, name="pairs")
    h.run_given(byte_cases, prop_bytes, h.n(700, 10000), shards=sh, name="bytes")
    if not h.quick:
        from checks import c05_fuzz
        c05_fuzz.campaign(h)


def _has_big_int(e):
    if isinstance(e, list):
        return any(_has_big_int(x) for x in e)
    if "int" in e:
        return abs(int(e["int"])) >= 64
    return any(_has_big_int(a) for a in e.get("args", [])) if "prim" in e else False


def _short(e):
    s = repr(e)
    return s if len(s) < 300 else s[:300] + "…"
