"""C01 — interpreter computes Michelson results for well-typed programs."""
from hypothesis import strategies as st

from vlib import exec_compare as xc
from vlib import gen_programs as gp
from vlib import ref_interp as ri
from vlib import selfcheck
from vlib.harness import Inconclusive, Violation

PID = "C01"
RULE = ("well-typed programs built by construction (type-directed chunks over stack ops, DIP n, IF/IF_NONE/IF_LEFT/"
        "IF_CONS with unified branches, counted LOOP/LOOP_LEFT, ITER/MAP over list/set/map, LAMBDA/EXEC/APPLY, PAIR n/"
        "UNPAIR n/GET n/UPDATE n, option/or, sets/maps, CONCAT/SLICE/SIZE, PACK/UNPACK, arithmetic, COMPARE, hashes, "
        "environment instructions, tickets, LAMBDA_REC, CAST/RENAME, FAILWITH; <=8 chunks quick / <=20 thorough, nesting <=2/3; plus a "
        "focused tier of 1-3 chunk programs whose first chunk kind is drawn uniformly from all 27 kinds; every hash instruction on "
        "every message length 0..300 (thorough ..1200) exhaustively; every arithmetic instruction and operand-type combination on a small "
        "cross product of boundary operands; a session tier runs programs as REPL text through "
        "Interpreter.execute right after 1-2 cells that failed inside DIP / ITER / IF / lambda bodies) x 0..3 input "
        "values x environments (amount, balance, sender, source, now, level, chain id, self address). Oracle: "
        "differential against an independent reference interpreter validated on Octez' opcode vectors: same final "
        "stack (types and values slot by slot) or the same kind of failure with the same FAILWITH payload. "
        "Non-trivial: the program contains a non-stack-shuffling instruction and (fails or consumes an input). "
        "Distinct = distinct (program, inputs, env).")

SHUFFLE = {"DROP", "DUP", "SWAP", "DIG", "DUG", "PUSH", "DIP", "UNIT"}
_ill = {"n": 0}


def oracle(case):
    env = xc.env_from_json(case["env"])
    try:
        return xc.compare_runs(case["inputs"], case["code"], env, case)
    except ri.IllTyped as e:
        _ill["n"] += 1
        return "illtyped:%s" % e, None


def replay(case):
    oracle(case)


def classify(v):
    if v.sig == "known:map-empty-type-change":
        return "C01-map-empty-type"
    if v.sig == "known:lambda-rec-stack-order":
        return "C01-lambda-rec-stack-order"
    return None


@st.composite
def cases(draw, size, depth, profile=None, focused=False, session=False):
    profile = profile or draw(st.sampled_from(["core", "core", "core", "combs", "collections"]))
    force = None
    if focused:  # short programs that start with a prescribed chunk kind: every instruction family gets its share of cases
        force = [draw(st.sampled_from(gp.ALL_KINDS))] + ([draw(st.sampled_from(["usetop", "stack", "compare"]))] if draw(st.booleans()) else [])
        size = (len(force), len(force) + 1)
    prog = draw(gp.programs(size=size, depth=depth, profile=profile, force=force))
    if session:  # the program is run as REPL text on an Interpreter that has just seen 1..2 failing cells
        sess = draw(st.lists(st.sampled_from(xc.FAILING_CELLS), min_size=1, max_size=2))
        return {"inputs": prog["inputs"], "code": prog["code"], "env": xc.env_to_json(draw(gp.env_strategy())),
                "chunks": prog["chunks"], "session": sess}
    return {"inputs": prog["inputs"], "code": prog["code"], "env": xc.env_to_json(draw(gp.env_strategy())),
            "chunks": prog["chunks"]}


def _prop(case, stats):
    kind, ref = oracle(case)
    names = gp.instr_names(case["code"])
    if kind.startswith("illtyped"):
        stats.extra["generator_illtyped"] += 1
        stats.extra["generator_illtyped:" + kind[9:60]] += 1
        return
    if kind == "budget":
        stats.extra["reference_budget_exhausted"] += 1
        return
    if kind.startswith("session-skip"):
        stats.extra[kind] += 1
        return
    nt = bool(names - SHUFFLE) and (kind != "ok" or bool(case["inputs"]))
    stats.case(case, nt, ("session:" if case.get("session") else "result:") + kind, sample={"inputs": case["inputs"][:2], "code": xc._short(case["code"])[:400]})
    for n in names:
        stats.extra["instr:" + n] += 1


def _hash_case(name, n):
    data = bytes((i * 131 + n * 7 + 3) % 256 for i in range(n))
    return {"inputs": [{"t": {"prim": "bytes"}, "v": {"bytes": data.hex()}}], "code": [{"prim": name}],
            "env": xc.env_to_json({"amount": 0, "balance": 0, "sender": (b"\x00\x00" + b"\x11" * 20, ""), "source": (b"\x00\x00" + b"\x11" * 20, ""),
                                   "now": 0, "level": 1, "chain_id": b"\x00" * 4, "self_address": (b"\x01" + b"\x22" * 20 + b"\x00", ""),
                                   "min_block_time": 1}), "chunks": ["hash-length"]}


SMALL = {"int": [-7, -2, -1, 0, 1, 2, 3, 7, 255, 256, -256], "nat": [0, 1, 2, 3, 7, 255, 256, 257], "mutez": [0, 1, 7, 2 ** 63 - 1],
         "timestamp": [-7, 0, 7], "bool": [False, True], "bytes": [b"", b"\x01", b"\x80", b"\x00\x80", b"\xff\x7f"]}
_ENV0 = {"amount": 0, "balance": 0, "sender": (b"\x00\x00" + b"\x11" * 20, ""), "source": (b"\x00\x00" + b"\x11" * 20, ""), "now": 0,
         "level": 1, "chain_id": b"\x00" * 4, "self_address": (b"\x01" + b"\x22" * 20 + b"\x00", ""), "min_block_time": 1}


def arith_cases():
    """Every (arithmetic instruction, operand types) combination on a small cross product of boundary operands: the
    differential oracle sees every arithmetic instruction with every sign combination in every run."""
    from vlib import ref_arith as ra
    from vlib import ref_values as rv
    out = []
    for op, tb in sorted(ra.BINARY.items()):
        for (ta, tb2) in sorted(tb):
            for a in SMALL[ta]:
                for b in SMALL[tb2]:
                    out.append({"inputs": [{"t": rv.T(ta), "v": rv.to_micheline(rv.T(ta), a)}, {"t": rv.T(tb2), "v": rv.to_micheline(rv.T(tb2), b)}],
                                "code": [{"prim": op}], "env": xc.env_to_json(_ENV0), "chunks": ["arith-grid"]})
    for op, tb in sorted(ra.UNARY.items()):
        for ta in sorted(tb):
            for a in SMALL[ta]:
                out.append({"inputs": [{"t": rv.T(ta), "v": rv.to_micheline(rv.T(ta), a)}], "code": [{"prim": op}],
                            "env": xc.env_to_json(_ENV0), "chunks": ["arith-grid"]})
    return out


def _prop_grid(case, stats):
    kind, ref = oracle(case)
    stats.case(case, True, "arith-grid:" + kind, sample={"op": case["code"][0]["prim"], "operands": [i["v"] for i in case["inputs"]]})


def _prop_hash(case, stats):
    oracle(case)
    n = len(case["inputs"][0]["v"]["bytes"]) // 2
    stats.case([case["code"], n], n >= 55, "hash-length:" + case["code"][0]["prim"], sample={"hash": case["code"][0]["prim"], "length": n})


def run(h):
    passed, skipped = selfcheck.ref_interp_vectors()
    h.coverage_extra["reference_validated"] = ("reference interpreter reproduces %d Octez opcode vectors (%d skipped: "
                                               "instructions outside its scope)" % (passed, skipped))
    size, depth = ((1, 8), 2) if h.quick else ((1, 20), 3)
    h.run_given(lambda: cases(size, depth), _prop, h.n(60, 1500), shards=16, classify=classify)
    h.run_given(lambda: cases(size, depth, focused=True), _prop, h.n(120, 2000), shards=16, classify=classify, name="focused")
    h.run_given(lambda: cases(size, depth, focused=True, session=True), _prop, h.n(40, 800), shards=16, classify=classify, name="session")
    h.run_enum(arith_cases(), _prop_grid, shards=16, classify=classify)
    # every message length up to 300 (thorough 1200) bytes for every hash instruction: padding depends on the length only
    top = 300 if h.quick else 1200
    h.run_enum([_hash_case(name, n) for name in sorted(ri.HASHES) for n in range(top + 1)], _prop_hash, shards=16)
    h.coverage_extra["exhaustive_subdomain"] = "message lengths 0..%d for BLAKE2B, SHA256, SHA512, SHA3, KECCAK" % top
    ill = h.stats.extra.get("generator_illtyped", 0)
    h.coverage_extra["instruction_histogram"] = {k[6:]: v for k, v in sorted(h.stats.extra.items()) if k.startswith("instr:")}
    for k in [k for k in h.stats.extra if k.startswith("instr:")]:
        del h.stats.extra[k]
    if ill > 0.05 * max(1, h.stats.evaluations):
        raise Inconclusive("generator produced %d ill-typed programs out of %d" % (ill, h.stats.evaluations))
