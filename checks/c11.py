"""C11 — typed values round-trip through readable and optimized Micheline."""
from hypothesis import strategies as st

from vlib import gen_types as gt
from vlib import interp
from vlib import ref_values as rv
from vlib.harness import Violation

PID = "C11"
RULE = ("storable/passable types (all leaves incl. timestamps over the full integer range with extra weight on years "
        "1, 1000, 9999 +-2 s, ints of thousands of bits, domain types, bls; option/or/pairs and combs of every length "
        "2..7/list/set/map/big_map literals/lambda; depth <=2 quick, <=3 thorough) x values x input spellings (nested "
        "Pair, n-ary Pair, sequence combs, optimized bytes) x modes readable/optimized/legacy_optimized. Oracle: "
        "T.from_micheline_value(v.to_micheline_value(m)) renders to the same optimized Micheline as v for every mode; "
        "every rendering parses (reference parser, strict RFC 3339) to the original value; no call raises. "
        "Non-trivial: value contains a timestamp outside 1970-2100, an int >= 2^64, a comb >= 3 or a domain type with "
        "an optimized form. Distinct = distinct (type, value, spelling).")

LEAVES = gt.COMPARABLE_LEAVES + gt.OTHER_LEAVES
MODES = ["readable", "optimized", "legacy_optimized"]


def _cls(t):
    from pytezos.michelson.types.base import MichelsonType
    import pytezos.michelson.types  # noqa: F401
    return MichelsonType.match(t)


def _ts(t):
    return t["prim"] if not rv.targs(t) else "(%s %s)" % (t["prim"], " ".join(_ts(a) for a in rv.targs(t)))


def _subtypes(t):
    yield t
    for a in rv.targs(t):
        yield from _subtypes(a)


def _blame(t, v):
    if rv.contains_type(t, {"timestamp"}):
        ts = _timestamps(t, v)
        if any(x < -30610224000 or x > 253402300799 for x in ts):
            return "timestamp-outside-1000-9999"
        return "timestamp"
    for p in ("key_hash", "address", "key", "signature", "chain_id", "bls12_381_fr", "big_map", "lambda", "map", "set"):
        if rv.contains_type(t, {p}):
            return p
    n = max([len(rv.comb_types(x)) for x in _subtypes(t) if x["prim"] == "pair"], default=0)
    return "comb%d" % n if n else t["prim"]


def _timestamps(t, v):
    p = t["prim"]
    a = rv.targs(t)
    if p == "timestamp":
        return [v]
    if p == "pair":
        return _timestamps(a[0], v[0]) + _timestamps(a[1], v[1])
    if p == "option":
        return _timestamps(a[0], v[1]) if v is not None else []
    if p == "or":
        return _timestamps(a[0 if v[0] == "Left" else 1], v[1])
    if p in ("list", "set"):
        return [x for e in v for x in _timestamps(a[0], e)]
    if p == "big_map" and isinstance(v, tuple) and v[:1] == ("ptr",):
        return []
    if p in ("map", "big_map"):
        return [x for k, e in v for x in _timestamps(a[0], k) + _timestamps(a[1], e)]
    return []


def respell(t, v, style):
    """Alternative input spellings Tezos accepts."""
    p = t["prim"]
    a = rv.targs(t)
    if p == "pair":
        ts, vs = rv.comb_types(t), rv.comb_values(t, v)
        items = [respell(x, y, style) for x, y in zip(ts, vs)]
        if style == "nary" and len(items) > 2:
            return {"prim": "Pair", "args": items}
        if style == "seq" and len(items) > 2:
            return items
        out = items[-1]
        for x in reversed(items[:-1]):
            out = {"prim": "Pair", "args": [x, out]}
        return out
    if p == "option":
        return {"prim": "None"} if v is None else {"prim": "Some", "args": [respell(a[0], v[1], style)]}
    if p == "or":
        return {"prim": v[0], "args": [respell(a[0 if v[0] == "Left" else 1], v[1], style)]}
    if p in ("list", "set"):
        return [respell(a[0], x, style) for x in v]
    if p == "big_map" and isinstance(v, tuple) and v[:1] == ("ptr",):
        return {"int": str(v[1])}   # a big_map that lives on chain is denoted by its identifier (0 is a valid identifier)
    if p in ("map", "big_map"):
        return [{"prim": "Elt", "args": [respell(a[0], k, style), respell(a[1], x, style)]} for k, x in v]
    return rv.to_micheline(t, v, "optimized" if style in ("opt", "seq") else "readable")


def oracle(case):
    t = case["t"]
    v = rv.from_micheline(t, case["v"])
    cls = _cls(t)
    inp = respell(t, v, case["style"])
    try:
        obj = cls.from_micheline_value(inp)
    except Exception as e:
        raise Violation("from_micheline_value rejected %s spelling %s of a %s value: %r" % (case["style"], inp, _ts(t), e),
                        case, "parse-raise:%s:%s" % (case["style"], _blame(t, v)))
    try:
        base = obj.to_micheline_value(mode="optimized", lazy_diff=None)
    except Exception as e:
        raise Violation("to_micheline_value(optimized) raised %r for %s : %s" % (e, inp, _ts(t)), case,
                        "render-raise:optimized:" + _blame(t, v))
    if interp.parse_output(t, base, "optimized rendering") != v:
        raise Violation("optimized rendering %s does not denote the input value %s" % (base, inp), case,
                        "render-value:optimized:" + _blame(t, v))
    for m in MODES:
        try:
            out = obj.to_micheline_value(mode=m, lazy_diff=None)
        except Exception as e:
            raise Violation("to_micheline_value(%s) raised %r for %s : %s" % (m, e, inp, _ts(t)), case,
                            "render-raise:%s:%s" % (m, _blame(t, v)))
        try:
            back = cls.from_micheline_value(out)
            again = back.to_micheline_value(mode="optimized", lazy_diff=None)
        except Exception as e:
            raise Violation("%s rendering %s of %s : %s cannot be parsed back: %r" % (m, out, inp, _ts(t), e), case,
                            "reparse-raise:%s:%s" % (m, _blame(t, v)))
        if again != base:
            raise Violation("round trip through %s changed the value: %s -> %s -> %s" % (m, base, out, again), case,
                            "roundtrip:%s:%s" % (m, _blame(t, v)))
        pv = interp.parse_output(t, out, "%s rendering" % m)
        if pv != v:
            raise Violation("%s rendering %s denotes a different value than %s" % (m, out, inp), case,
                            "render-value:%s:%s" % (m, _blame(t, v)))
    return v


def replay(case):
    oracle(case)


def _types(depth):
    return gt.types(depth, leaves=LEAVES, collections=True, lambdas=True, big_maps=True)


@st.composite
def cases(draw, depth):
    if draw(st.integers(0, 5)) == 0:  # timestamps get their own weight
        t = draw(st.sampled_from([rv.T("timestamp"), rv.T("option", rv.T("timestamp")),
                                  rv.T("pair", rv.T("timestamp"), rv.T("int")), rv.T("map", rv.T("timestamp"), rv.T("nat"))]))
    else:
        t = draw(_types(depth))
    v = draw(gt.values(t, ptrs=True))
    return {"t": t, "v": rv.to_micheline(t, v), "style": draw(st.sampled_from(["nested", "nested", "nary", "seq", "opt"]))}


def _nontrivial(t, v):
    if any(x < 0 or x > 4102444800 for x in _timestamps(t, v)):
        return True
    if rv.contains_type(t, {"address", "key", "key_hash", "signature", "chain_id", "bls12_381_fr"}):
        return True
    if any(x["prim"] == "pair" and len(rv.comb_types(x)) >= 3 for x in _subtypes(t)):
        return True
    return "'int': '" in repr(rv.to_micheline(t, v)) and any(len(s) > 20 for s in repr(rv.to_micheline(t, v)).split("'"))


def _prop(case, stats):
    v = oracle(case)
    t = case["t"]
    stats.case(case, _nontrivial(t, v), "%s:%s" % (case["style"], _blame(t, v)),
               sample={"type": _ts(t), "value": case["v"], "style": case["style"]})


def run(h):
    depth = 2 if h.quick else 3
    h.run_given(lambda: cases(depth), _prop, h.n(300, 10000), shards=8 if h.quick else 16)
