"""C25 — injected operation groups carry the account's next counters (client call histories against a simulated node)."""
from hypothesis import strategies as st

from vlib import fake_node
from vlib import ref_ops
from vlib.harness import Violation

PID = "C25"
RULE = ("histories of 3..20 client calls (thorough ..50) by one account (one shared ExecutionContext, as PyTezosClient does) against "
        "a simulated node whose account counter and mempool evolve: build a group of 1..3 transfers (fields left to the client spelled '0' or ''), "
        "or a contract call built from a contract interface pinned to a past block, or a batch assembled by client.bulk() from groups that "
        "may have been filled on their own before (a fill / autofill may also find the node's mempool endpoint closed and fail), fill() / autofill() it one or "
        "more times (the simulation may fail), fill()/autofill() the already filled group again, sign, inject (the node may "
        "refuse), send() (= autofill+sign+inject), a fill()/autofill() that raises on the client side (a content that cannot be forged), bake (pending operations are applied: counter advances, mempool empties), "
        "another account injects. Discipline: one group at a time (a group is injected or dropped after a refused injection "
        "before the next one is built); an explicit counter= is generated only with the right value (the next counter). Oracle: at every injection the payload is "
        "decoded by the reference operation codec; its counters must be c+m+1 .. c+m+k where c is the account's counter on the "
        "node and m the number of the account's operations pending in the mempool at that moment. Non-trivial: the history "
        "fills/autofills a group more than once, or injects while another injection is pending, or injects after a failed "
        "simulation or a refused injection. Distinct = distinct history.")

DEST = "tz1Ke2h7sDdakHJQh8WX4Z372du1KChsksyU"
OTHER = "tz1VSUr8wwNhLAzempoch5d6hLRiTh8Cjcjb"
SECRET = bytes(range(1, 33))


KT = "KT1BEqzn5Wx8uJrZNvuS9DVHmLvG9td3fDLi"
SCRIPT = {"code": [{"prim": "parameter", "args": [{"prim": "nat"}]}, {"prim": "storage", "args": [{"prim": "nat"}]},
                   {"prim": "code", "args": [[{"prim": "CAR"}, {"prim": "NIL", "args": [{"prim": "operation"}]}, {"prim": "PAIR"}]]}],
          "storage": {"int": "0"}}


def _transfer(i, blank="0"):
    """hand-written content: fields left to the client are spelled '0' (as the builders do) or '' """
    return {"kind": "transaction", "source": "", "fee": "0", "counter": blank, "gas_limit": "0", "storage_limit": "0",
            "amount": str(1 + i), "destination": DEST}


class World:
    def __init__(self, case):
        from pytezos.context.impl import ExecutionContext
        from pytezos.crypto.key import Key
        self.key = Key.from_secret_exponent(SECRET, b"ed")
        self.pkh = self.key.public_key_hash()
        self.node = fake_node.FakeNode()
        self.node.counters[self.pkh] = case["start_counter"]
        self.node.run_operation_handler = self.simulate
        self.node.inject_handler = self.on_inject
        self.node.scripts[KT] = SCRIPT
        self.level0 = self.node.level
        self.node.history[self.node.level] = dict(self.node.counters)
        self.ctx = ExecutionContext(key=self.key, shell=fake_node.shell(self.node))
        self.sim_ok = True
        self.accept = True
        self.case = case
        self.injected = []   # (counters seen, expected)
        self.g0 = self.gf = self.gs = None
        self.flags = set()
        self.fills_of_current = 0
        self.trouble_before = False

    # -- node side ---------------------------------------------------------------------------------------------------
    def pending(self):
        return sum(1 for op in self.node.mempool for c in op["contents"] if c.get("source") == self.pkh)

    def simulate(self, req):
        from pytezos.rpc.node import RpcError
        contents = []
        # like a real node, the simulation runs on the head state: the first counter must be the account's counter + 1
        head = self.node.counters[self.pkh]
        got = [int(c["counter"]) for c in req["operation"]["contents"]]
        if got != [head + 1 + i for i in range(len(got))]:
            self.flags.add("simulation-counter-mismatch")
            self.sim_counter_mismatch = (got, head)
        for c in req["operation"]["contents"]:
            res = {"status": "applied", "consumed_milligas": "1000000"} if self.sim_ok else \
                {"status": "failed", "errors": [{"kind": "temporary", "id": "proto.alpha.contract.balance_too_low"}]}
            contents.append(dict(c, metadata={"operation_result": res}))
        return {"contents": contents}

    def on_inject(self, payload):
        from pytezos.rpc.node import RpcError
        dec = ref_ops.decode_group(payload[:-64])
        counters = [int(c["counter"]) for c in dec["contents"]]
        c, m = self.node.counters[self.pkh], self.pending()
        want = [c + m + 1 + i for i in range(len(counters))]
        self.injected.append((counters, want))
        if counters != want:
            raise Violation("injected group carries counters %s; the account's counter on the node is %d with %d of its operations "
                            "pending in the mempool, so the next counters are %s (history: %s)" % (
                                counters, c, m, want, self.case["steps"][:self.step_no + 1]), self.case,
                            "wrong-counter:" + self.blame())
        if not self.accept:
            raise RpcError({"kind": "temporary", "id": "node.prevalidation.refused"})
        self.node.mempool.append({"hash": "op%d" % len(self.injected), "branch": dec["branch"], "contents": dec["contents"]})
        return "oo7Rnk8e1vqZ9n7TFdHTjEUvLvp4fbNTcfNfKvEXNhcBLrUbTSm"

    def blame(self):
        if self.fills_of_current > 1:
            return "group-filled-more-than-once"
        if self.pending():
            return "other-injection-pending"
        if self.trouble_before:
            return "after-failed-simulation-or-refused-injection"
        return "plain"

    # -- client side -------------------------------------------------------------------------------------------------
    def step(self, no, s):
        from pytezos.operation.group import OperationGroup
        from pytezos.rpc.node import RpcError
        self.step_no = no
        op = s["op"]
        if op == "build":
            if self.g0 is not None:
                return "skip"
            if s.get("via") == "contract":
                # a call built from a contract interface that inspects the contract at a past block (`.using(block_id=...)`)
                from pytezos.contract.interface import ContractInterface
                from pytezos.context.impl import ExecutionContext
                ci = ContractInterface.from_context(ExecutionContext(key=self.key, shell=self.ctx.shell, address=KT, script=SCRIPT))
                pinned = ci.using(block_id=max(self.level0, self.node.level - s.get("back", 0)))
                self.g0 = pinned.default(s["k"]).as_transaction()
                self.g0 = OperationGroup(context=self.ctx, contents=self.g0.contents) if s.get("rebind") else self.g0
                self.flags.add("built-from-pinned-contract")
            elif s.get("via") == "bulk":
                # a batch assembled with client.bulk() from single groups, some of which were filled / autofilled on their own before
                from pytezos.client import PyTezosClient
                members = []
                self.sim_ok = True
                for i, pre in enumerate(s["prefill"]):
                    g = OperationGroup(context=self.ctx, contents=[_transfer(i)])
                    if pre == "fill":
                        g = g.fill()
                    elif pre == "autofill":
                        g = g.autofill()
                    members.append(g)
                self.g0 = PyTezosClient(context=self.ctx).bulk(*members)
                if any(s["prefill"]):
                    self.flags.add("bulk-of-filled-groups")
            else:
                self.g0 = OperationGroup(context=self.ctx, contents=[_transfer(i, s.get("blank", "0")) for i in range(s["k"])])
            self.gf = self.gs = None
            self.fills_of_current = 0
            return "ok"
        if op in ("fill", "autofill"):
            if self.g0 is None:
                return "skip"
            self.sim_ok = s.get("sim_ok", True)
            self.node.mempool_down = bool(s.get("mempool_down"))
            kw = {}
            if s.get("explicit"):   # an application that keeps track of counters itself passes the (right) next counter
                kw["counter"] = self.node.counters[self.pkh] + self.pending() + 1
                self.flags.add("explicit-counter")
            try:
                self.gf = self.g0.fill(**kw) if op == "fill" else self.g0.autofill(**kw)
            except RpcError:
                if self.node.mempool_down:   # the node refuses to show its mempool: the call fails, nothing was filled
                    self.node.mempool_down = False
                    self.flags.add("mempool-not-exposed")
                    self.trouble_before = True
                    return "mempool-refused"
                if self.sim_ok:
                    raise
                self.flags.add("failed-simulation")
                self.trouble_before = True
                return "sim-failed"
            self.node.mempool_down = False
            self.gs = None
            self.fills_of_current += 1
            if self.fills_of_current > 1:
                self.flags.add("filled-more-than-once")
            return "ok"
        if op in ("refill", "reautofill"):
            if self.gf is None:
                return "skip"
            self.sim_ok = True
            self.gf = self.gf.fill() if op == "refill" else self.gf.autofill()
            self.gs = None
            self.fills_of_current += 1
            self.flags.add("filled-more-than-once")
            return "ok"
        if op == "sign":
            if self.gf is None:
                return "skip"
            self.gs = self.gf.sign()
            return "ok"
        if op in ("inject", "send"):
            if op == "inject" and self.gs is None:
                return "skip"
            if op == "send" and self.g0 is None:
                return "skip"
            self.accept = s.get("accept", True)
            self.sim_ok = True
            if self.pending():
                self.flags.add("inject-while-pending")
            if self.trouble_before:
                self.flags.add("inject-after-trouble")
            try:
                if op == "inject":
                    self.gs.inject()
                else:
                    self.fills_of_current += 1
                    self.g0.send()
            except RpcError:
                if self.accept:
                    raise
                self.flags.add("refused-injection")
                self.trouble_before = True
                if s.get("drop", True):
                    self.g0 = self.gf = self.gs = None
                return "refused"
            self.g0 = self.gf = self.gs = None
            self.trouble_before = False
            return "ok"
        if op == "broken_fill":
            # a client-side failure: the second content cannot be forged (typo in the destination), fill()/autofill() raises
            bad = dict(_transfer(1), destination="tz1Ke2h7sDdakHJQh8WX4Z372du1KChsksyX")
            g = OperationGroup(context=self.ctx, contents=[_transfer(0), bad])
            try:
                g.fill() if s.get("how", "fill") == "fill" else g.autofill()
            except Exception:
                self.flags.add("failed-client-side-fill")
                self.trouble_before = True
                return "raised"
            return "ok"
        if op == "bake":
            for o in self.node.mempool:
                for c in o["contents"]:
                    src = c.get("source")
                    self.node.counters[src] = self.node.counters.get(src, 0) + 1
            self.node.mempool = []
            self.node.level += 1
            self.node.history[self.node.level] = dict(self.node.counters)
            return "ok"
        if op == "other":
            self.node.mempool.append({"hash": "x", "branch": self.node.head_hash, "contents": [
                {"kind": "transaction", "source": OTHER, "counter": str(self.node.counters.get(OTHER, 0) + 1), "fee": "1000",
                 "gas_limit": "2000", "storage_limit": "0", "amount": "1", "destination": DEST}]})
            return "ok"
        raise ValueError(op)


def oracle(case):
    w = World(case)
    outcomes = []
    for no, s in enumerate(case["steps"]):
        outcomes.append(w.step(no, s))
    return w, outcomes


def replay(case):
    oracle(case)


def classify(v):
    return None


@st.composite
def histories(draw, max_steps):
    """Episodes: build -> fill/autofill one or more times -> sign -> inject (or send), with bakes, foreign injections, failed
    simulations, refused injections and retries in between; a few arbitrary steps are mixed in as well."""
    steps = []

    def prep():
        out = []
        for _ in range(draw(st.sampled_from([1, 1, 2, 2, 3]))):
            op = draw(st.sampled_from(["fill", "autofill", "autofill", "refill", "reautofill"]))
            s = {"op": op}
            if op == "autofill":
                s["sim_ok"] = draw(st.integers(0, 4)) != 0
            if op in ("fill", "autofill") and draw(st.integers(0, 7)) == 0:
                s["mempool_down"] = True    # this call finds the mempool endpoint closed
            elif op in ("fill", "autofill") and draw(st.integers(0, 5)) == 0:
                s["explicit"] = True
            out.append(s)
        if (out[-1]["op"] == "autofill" and not out[-1]["sim_ok"]) or out[-1].get("mempool_down"):
            out.append({"op": draw(st.sampled_from(["fill", "autofill"])), "sim_ok": True})
        if out[0]["op"] in ("refill", "reautofill"):
            out.insert(0, {"op": draw(st.sampled_from(["fill", "autofill"])), "sim_ok": True})
        return out

    while len(steps) < max_steps:
        for _ in range(draw(st.sampled_from([0, 0, 1, 1, 2]))):
            steps.append({"op": draw(st.sampled_from(["bake", "other", "other", "bake", "sign", "inject", "fill", "broken_fill"]))})
            if steps[-1]["op"] == "broken_fill":
                steps[-1]["how"] = draw(st.sampled_from(["fill", "autofill"]))
        steps.append({"op": "build", "k": draw(st.integers(1, 3)), "blank": draw(st.sampled_from(["0", "0", ""]))})
        if draw(st.integers(0, 3)) == 0:
            steps[-1].update(via="contract", back=draw(st.integers(0, 3)))
        elif draw(st.integers(0, 4)) == 0:
            steps[-1].update(via="bulk", prefill=draw(st.lists(st.sampled_from([None, "fill", "autofill"]), min_size=2, max_size=3)))
        if draw(st.integers(0, 4)) == 0:
            steps.append({"op": "send", "accept": draw(st.integers(0, 4)) != 0, "drop": True})
            continue
        steps += prep()
        if draw(st.integers(0, 3)) == 0:
            steps.append({"op": draw(st.sampled_from(["bake", "other"]))})
        steps.append({"op": "sign"})
        accept = draw(st.integers(0, 4)) != 0
        drop = draw(st.booleans())
        steps.append({"op": "inject", "accept": accept, "drop": drop})
        if not accept and not drop:  # retry the same group after the refusal
            if draw(st.booleans()):
                steps += prep()
            steps += [{"op": "sign"}, {"op": "inject", "accept": True, "drop": True}]
        if draw(st.integers(0, 5)) == 0:
            break
    return {"start_counter": draw(st.sampled_from([0, 10, 127, 2 ** 32])), "steps": steps[:max_steps + 6]}


def _prop(case, stats):
    w, outcomes = oracle(case)
    nt = bool(w.injected) and bool(w.flags & {"filled-more-than-once", "inject-while-pending", "inject-after-trouble"})
    stats.case(case["steps"], nt, "injections=%s" % ("0" if not w.injected else "1" if len(w.injected) == 1 else "2+"),
               sample={"start_counter": case["start_counter"], "steps": case["steps"][:12], "injected": w.injected[:4]})
    for f in w.flags:
        stats.label(f)
    stats.extra["injections"] += len(w.injected)
    stats.extra["skipped_steps"] += outcomes.count("skip")


def run(h):
    h.run_given(lambda: histories(20 if h.quick else 50), _prop, h.n(60, 3000), shards=16, classify=classify)
