"""C27 — node errors map to the most specific registered error class."""
import itertools

from vlib.harness import Violation

PID = "C27"
RULE = ("exhaustive identifiers proto.<P>.<cat>.<name>, proto.<P>.<cat>.<sub>.<name>, <cat>.<name>, <name> with "
        "cat/sub/name over every registered handler key, its dot-components and fresh tokens, 3 protocol strings, "
        "as the last element of error lists of length 1..3 (earlier elements are decoys that map elsewhere, or repeat the last id), through "
        "RpcError.from_errors, the same method reached through a registered subclass, and RpcError.from_response; oracle: "
        "reference lookup (full id, id without proto.<P>., final component, category, generic) over the registry "
        "read from RpcError.__handlers__, which must itself equal the error ids declared by the error classes (read from the source "
        "with ast); where the statement leaves 'category' open (4-part suffixes) every reading "
        "is accepted. Non-trivial: >=2 lookup stages match different classes. Distinct = distinct error list.")

PROTOS = ["024-PtTALLiN", "alpha", "005-PsBabyM1"]


def registry():
    import pytezos.rpc.errors  # noqa: F401  registers the handlers
    from pytezos.rpc.node import RpcError
    return RpcError, dict(RpcError.__handlers__)


def declared_registry():
    """{error id: class name} as DECLARED in the source (class X(RpcError, error_id=...)), read with ast: independent of what
    the registration code put into RpcError.__handlers__ at import time."""
    import ast
    import pytezos.rpc.errors as errs
    import pytezos.rpc.node as node
    out = {}
    for mod in (errs, node):
        tree = ast.parse(open(mod.__file__).read())
        for n in ast.walk(tree):
            if isinstance(n, ast.ClassDef):
                for kw in n.keywords:
                    if kw.arg == "error_id":
                        val = ast.literal_eval(kw.value)
                        for eid in (val if isinstance(val, list) else [val]):
                            out[eid] = n.name
    return out


def check_registry(case):
    _, handlers = registry()
    live = {k: v.__name__ for k, v in handlers.items()}
    want = declared_registry()
    if live != want:
        extra = {k: live[k] for k in live if want.get(k) != live[k]}
        missing = {k: want[k] for k in want if k not in live}
        raise Violation("the handler registry differs from the error ids the classes declare: unexpected %s, missing %s" % (
            extra, missing), case, "registry")
    return live


def _first_match(stages, handlers, generic):
    matched = [handlers[k] for k in stages if k in handlers]
    return (matched[0] if matched else generic), matched


def acceptable(eid, handlers, generic):
    """Set of classes the statement allows for identifier `eid`, and the classes matched per stage."""
    chunks = eid.split(".")
    stages = [eid]
    if chunks[0] == "proto" and len(chunks) > 2:
        rest = chunks[2:]
        stages.append(".".join(rest))
    else:
        rest = chunks
    stages.append(chunks[-1])
    # category: the component after the protocol prefix. For ids deeper than <category>.<name> the statement does
    # not say which component is "the category", so each reading is accepted.
    readings = [stages]
    if len(rest) >= 2:
        readings = [stages + [c] for c in dict.fromkeys([rest[0], rest[-2]])]
    ok, allm = set(), []
    for r in readings:
        cls, matched = _first_match(r, handlers, generic)
        ok.add(cls)
        allm = matched if len(matched) > len(allm) else allm
    return ok, allm


def oracle(case):
    if case.get("mode") == "registry":
        return check_registry(case)
    RpcError, handlers = registry()
    errors = case["errors"]
    route = case.get("route", "from_errors")
    try:
        if route == "from_response":     # the way node answers reach the mapping: a 500 response with a JSON error list
            import json
            from vlib import fake_http
            exc = RpcError.from_response(fake_http.make_response(500, json.dumps(errors).encode(), "application/json"))
        elif route.startswith("subclass:"):   # the class methods are inherited: asking through a registered class changes nothing
            sub = next(c for c in handlers.values() if c.__name__ == route.split(":")[1])
            exc = sub.from_errors(errors)
        else:
            exc = RpcError.from_errors(errors)
    except Exception as e:
        raise Violation("%s raised %r for %s" % (route, e, errors), case, "raise")
    eid = errors[-1]["id"]
    ok, matched = acceptable(eid, handlers, RpcError)
    if type(exc) not in ok:
        raise Violation("id %r (last of %d errors, route %s, ids %s) mapped to %s, expected %s"
                        % (eid, len(errors), route, [e["id"] for e in errors], type(exc).__name__, sorted(c.__name__ for c in ok)), case,
                        "wrong-class:%s" % type(exc).__name__)
    if exc.args != (errors[-1],):
        raise Violation("exception does not carry the last error: %r" % (exc.args,), case, "wrong-payload")
    return matched


def replay(case):
    oracle(case)


def _prop(case, stats):
    matched = oracle(case)
    distinct = set(matched)
    stats.case(case, len(distinct) >= 2, "stages-matching=%d" % len(matched),
               sample=[e["id"] for e in case["errors"]])


def run(h):
    _, handlers = registry()
    tokens = set()
    for k in handlers:
        tokens.add(k)
        tokens.update(k.split("."))
    tokens = sorted(tokens) + ["fresh_tok", "gas_exhausted", "contract"]
    ids = set()
    single = [t for t in tokens if "." not in t]
    for name in tokens:
        ids.add(name)
    for cat, name in itertools.product(tokens, single):
        ids.add("%s.%s" % (cat, name))
        for p in PROTOS:
            ids.add("proto.%s.%s.%s" % (p, cat, name))
    for cat, sub, name in itertools.product(single, single, single):
        for p in PROTOS[:1]:
            ids.add("proto.%s.%s.%s.%s" % (p, cat, sub, name))
    ids = sorted(ids)
    decoys = [{"kind": "temporary", "id": "proto.alpha.michelson_v1.bad_return"},
              {"kind": "permanent", "id": "tez.overflow"}, {"kind": "branch", "id": "fresh_a.fresh_b"}]
    items = []
    for i, eid in enumerate(ids):
        last = {"kind": ["permanent", "temporary", "branch"][i % 3], "id": eid, "extra": i}
        items.append({"errors": [last]})
        items.append({"errors": [decoys[i % 3], last]})
        items.append({"errors": [decoys[(i + 1) % 3], decoys[i % 3], last]})
        # the innermost error's id also occurs earlier in the trace; other routes to the same mapping
        names = sorted({c.__name__ for c in handlers.values()})
        route = ["from_response", "subclass:" + names[i % len(names)], "from_errors", "from_response"][i % 4]
        items.append({"errors": [dict(last, extra="earlier"), decoys[i % 3], last], "route": route})
        items.append({"errors": [decoys[i % 3], last], "route": ["from_response", "subclass:" + names[(i + 1) % len(names)]][i % 2]})
    h.run_enum([{"mode": "registry"}], lambda c, st_: (oracle(c), st_.case(c, True, "registry"))[1], shards=1)
    h.exhaustive = True
    h.coverage_extra["exhaustive_subdomain"] = "%d identifiers x list lengths 1..3" % len(ids)
    h.coverage_extra["registry"] = {k: v.__name__ for k, v in handlers.items()}
    h.run_enum(items, _prop, shards=8)
