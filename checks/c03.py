"""C03 — COMPARE and ordered collections follow the Tezos total order."""
from hypothesis import strategies as st

from vlib import gen_types as gt
from vlib import interp
from vlib import ref_values as rv
from vlib.harness import Violation

PID = "C03"
RULE = ("comparable types (all comparable leaves incl. key_hash/key of four curves/address of tz1-4,KT1,sr1 with "
        "entrypoints/signature/chain_id/timestamp; option, or, pair and combs nested to depth 2 quick / 3 thorough) x "
        "pairs and triples of values generated near each other (one component changed, at any position) x sets/maps "
        "built from 2..6 such values. Oracle: COMPARE == reference sign (exact; consistency only for P-256 keys of "
        "different parity, mixed-length signatures and default-vs-lower entrypoint); antisymmetry and transitivity "
        "through the implementation; the same literals compared as plain strings before / after in the same process keep their own "
        "(string) order; a set/map literal sorted by the reference order is accepted and keeps that order, "
        "UPDATE-insertion in any order yields it, unsorted or duplicate literals are rejected; sets / maps / big maps built from Python objects "
        "given in arbitrary order come out in that order too. Non-trivial: the values "
        "differ and, for composite types, the first differing component is not the last one. Distinct = distinct case.")


def _cmp_impl(t, a, b, case, ma=None, mb=None):
    """ma / mb: the literals exactly as generated (a signature may be spelled under any of its prefixes)"""
    ma = rv.to_micheline(t, a) if ma is None else ma
    mb = rv.to_micheline(t, b) if mb is None else mb
    stk, out, err = interp.run([interp.push(t, mb), interp.push(t, ma), {"prim": "COMPARE"}])
    if err is not None:
        raise Violation("COMPARE failed on type %s: %r  a=%s b=%s" % (_ts(t), err.args, ma, mb), case,
                        "compare-raise:" + _blame(t, a, b))
    ty, v = interp.read_item(stk.items[0])
    if ty != {"prim": "int"} or v.get("int") not in ("-1", "0", "1"):
        raise Violation("COMPARE returned %r : %r" % (v, ty), case, "compare-result-shape")
    return int(v["int"])


def _ts(t):
    if not rv.targs(t):
        return t["prim"]
    return "(%s %s)" % (t["prim"], " ".join(_ts(a) for a in rv.targs(t)))


def _blame(t, a, b):
    """Which leaf type decides the reference comparison (for root-cause bucketing)."""
    p = t["prim"]
    if p == "pair":
        c = rv.compare(rv.targs(t)[0], a[0], b[0])
        if c is rv.UNCONSTRAINED or c != 0:
            return "pair>" + _blame(rv.targs(t)[0], a[0], b[0]) if rv.targs(t)[0]["prim"] in ("pair", "option", "or") \
                else "pair:first"
        return "pair:later"
    if p == "option":
        if a is None or b is None:
            return "option:none"
        return _blame(rv.targs(t)[0], a[1], b[1])
    if p == "or":
        if a[0] != b[0]:
            return "or:branch"
        return _blame(rv.targs(t)[0 if a[0] == "Left" else 1], a[1], b[1])
    if p == "address":
        return "address:%d-vs-%d" % (a[0][0] if a[0][0] else 0, b[0][0] if b[0][0] else 0)
    if p in ("key", "key_hash"):
        return "%s:%d-vs-%d" % (p, a[0], b[0])
    return p


STRINGLY = ("address", "key", "key_hash", "signature", "chain_id", "timestamp")


def _stringly(t):
    """t with every leaf whose literals are written as strings replaced by `string`"""
    if t["prim"] in STRINGLY:
        return rv.T("string")
    if rv.targs(t):
        return rv.T(t["prim"], *[_stringly(x) for x in rv.targs(t)])
    return t


def _as_strings(case):
    """The same two literals compared at the type where the domain leaves are plain strings (in the same process: nothing learnt
    about a text at one type may be reused at another type)."""
    t = case["t"]
    ts = _stringly(t)
    if ts == t:
        return
    try:
        sa, sb = rv.from_micheline(ts, case["a"]), rv.from_micheline(ts, case["b"])
    except rv.Malformed:
        return  # e.g. a timestamp written as an integer
    want = rv.compare(ts, sa, sb)
    got = _cmp_impl(ts, sa, sb, case, case["a"], case["b"])
    if got != want:
        raise Violation("COMPARE %s (the literals of a %s comparison in the same process, read as strings): a=%s b=%s -> %d, Tezos order "
                        "gives %d" % (_ts(ts), _ts(t), case["a"], case["b"], got, want), case, "wrong-sign:as-strings")


def check_pair(case):
    t, a, b = case["t"], _dec(case["a"]), _dec(case["b"])
    want = rv.compare(t, a, b)
    if case.get("alt") == "before":
        _as_strings(case)
    got = _cmp_impl(t, a, b, case, case["a"], case["b"])
    rev = _cmp_impl(t, b, a, case, case["b"], case["a"])
    if want is not rv.UNCONSTRAINED and got != want:
        raise Violation("COMPARE %s: a=%s b=%s -> %d, Tezos order gives %d" % (
            _ts(t), case["a"], case["b"], got, want), case, "wrong-sign:" + (_blame(t, a, b) if a != b else "same-value-other-spelling"))
    if rev != -got:
        raise Violation("COMPARE not antisymmetric on %s: cmp(a,b)=%d cmp(b,a)=%d a=%s b=%s" % (
            _ts(t), got, rev, rv.to_micheline(t, a), rv.to_micheline(t, b)), case, "antisymmetry:" + _blame(t, a, b))
    if _cmp_impl(t, a, a, case) != 0:
        raise Violation("COMPARE a a != 0 on %s" % _ts(t), case, "reflexive")
    if case.get("alt") == "after":
        _as_strings(case)
        again = _cmp_impl(t, a, b, case, case["a"], case["b"])
        if again != got:
            raise Violation("COMPARE %s a=%s b=%s gave %d, and %d after the same literals had been compared as strings" % (
                _ts(t), case["a"], case["b"], got, again), case, "unstable-after-strings")
    return want


def check_triple(case):
    t = case["t"]
    a, b, c = _dec(case["a"]), _dec(case["b"]), _dec(case["c"])
    ab, bc, ac = (_cmp_impl(t, a, b, case, case["a"], case["b"]), _cmp_impl(t, b, c, case, case["b"], case["c"]),
                  _cmp_impl(t, a, c, case, case["a"], case["c"]))
    if ab <= 0 and bc <= 0 and not ac <= 0 or ab >= 0 and bc >= 0 and not ac >= 0 or (ab == 0 and ac != bc):
        raise Violation("COMPARE not transitive on %s: ab=%d bc=%d ac=%d; a=%s b=%s c=%s" % (
            _ts(t), ab, bc, ac, rv.to_micheline(t, a), rv.to_micheline(t, b), rv.to_micheline(t, c)), case,
            "transitivity")


def _read_seq(stk, t_coll):
    ty, v = interp.read_item(stk.items[0])
    return rv.from_micheline(t_coll, v)


def check_collection(case):
    t = case["t"]
    vals = [_dec(x) for x in case["vals"]]
    srt = rv.sort_values(t, vals)
    st_t = rv.T("set", t)
    lit = [rv.to_micheline(t, v) for v in srt]
    stk, out, err = interp.run([interp.push(st_t, lit)])
    if err is not None:
        raise Violation("set literal sorted by the Tezos order rejected: %r  type %s literal %s" % (err.args, _ts(t), lit),
                        case, "sorted-literal-rejected:" + (_blame(t, srt[0], srt[1]) if len(srt) > 1 else "single"))
    if _read_seq(stk, st_t) != srt:
        raise Violation("set literal changed order/content: %s" % lit, case, "literal-order")
    # insertion in the generated (arbitrary) order
    code = [{"prim": "EMPTY_SET", "args": [t]}]
    for v in vals:
        code += [interp.push(rv.T("bool"), {"prim": "True"}), interp.push(t, rv.to_micheline(t, v)), {"prim": "UPDATE"}]
    stk, out, err = interp.run(code)
    if err is not None:
        raise Violation("UPDATE on set %s failed: %r" % (_ts(t), err.args), case, "update-raise")
    got = _read_seq(stk, st_t)
    if got != srt:
        raise Violation("set built by UPDATE is %s, reference sorted set is %s (type %s)" % (
            [rv.to_micheline(t, x) for x in got], lit, _ts(t)), case, "update-order:" +
            (_blame(t, srt[0], srt[1]) if len(srt) > 1 else "dup"))
    # map keys: same relation
    mt = rv.T("map", t, rv.T("nat"))
    mlit = [{"prim": "Elt", "args": [k, {"int": str(i)}]} for i, k in enumerate(lit)]
    stk, out, err = interp.run([interp.push(mt, mlit)])
    if err is not None:
        raise Violation("map literal with keys sorted by the Tezos order rejected: %r" % (err.args,), case,
                        "sorted-map-rejected")
    # big_map literals (storage / parameter values): same relation
    from pytezos.michelson.types.base import MichelsonType
    import pytezos.michelson.types  # noqa: F401
    bcls = MichelsonType.match(rv.T("big_map", t, rv.T("nat")))
    try:
        bm = bcls.from_micheline_value(mlit)
        back = bm.to_micheline_value(mode="readable", lazy_diff=True)
    except Exception as e:
        raise Violation("big_map literal with keys sorted by the Tezos order rejected: %r (type %s, literal %s)" % (e, _ts(t), mlit),
                        case, "sorted-big_map-rejected")
    if [rv.from_micheline(t, x["args"][0]) for x in back] != srt:
        raise Violation("big_map literal changed key order/content: %s -> %s" % (mlit, back), case, "big_map-literal-order")
    _python_route(case, t, vals, srt)
    if len(srt) >= 2:
        i0 = case.get("swap", 0) % (len(srt) - 1)
        for what, keys in (("unsorted", lit[:i0] + [lit[i0 + 1], lit[i0]] + lit[i0 + 2:]), ("duplicate", lit[:i0 + 1] + lit[i0:])):
            try:
                bcls.from_micheline_value([{"prim": "Elt", "args": [k, {"int": "0"}]} for k in keys])
            except Exception:
                continue
            raise Violation("big_map literal with %s keys accepted: %s (type %s)" % (what, keys, _ts(t)), case, what + "-big_map-accepted")
    if len(srt) >= 2:
        i = case.get("swap", 0) % (len(srt) - 1)
        bad = list(lit)
        bad[i], bad[i + 1] = bad[i + 1], bad[i]
        stk, out, err = interp.run([interp.push(st_t, bad)])
        if err is None:
            raise Violation("unsorted set literal accepted: %s (type %s)" % (bad, _ts(t)), case, "unsorted-accepted")
        dup = lit[:i + 1] + lit[i:]
        stk, out, err = interp.run([interp.push(st_t, dup)])
        if err is None:
            raise Violation("set literal with a duplicate accepted: %s" % dup, case, "duplicate-accepted")
        mbad = [{"prim": "Elt", "args": [k, {"int": "0"}]} for k in bad]
        stk, out, err = interp.run([interp.push(mt, mbad)])
        if err is None:
            raise Violation("map literal with unsorted keys accepted: %s" % mbad, case, "unsorted-map-accepted")
    return srt


def _alt_spelling(t, v, o):
    """another Python object pytezos accepts for the same value (None if there is none for this type)"""
    p = t["prim"]
    if p == "timestamp" and isinstance(o, int) and 0 <= o < 253402300800:
        import datetime
        return datetime.datetime.fromtimestamp(o, datetime.timezone.utc).strftime("%Y-%m-%dT%H:%M:%SZ")
    if p == "timestamp" and isinstance(o, str):
        return v if isinstance(v, int) else None
    if p == "bytes" and isinstance(o, bytes):
        return o.hex() if o else None
    if p == "address" and isinstance(o, str) and "%" not in o:
        return o + "%default"
    if p == "pair" and isinstance(o, tuple) and len(o) == 2 and isinstance(v, tuple):
        a = _alt_spelling(rv.targs(t)[0], v[0], o[0])
        if a is not None:
            return (a, o[1])
    return None


def _python_route(case, t, vals, srt):
    """Sets / maps / big maps built from Python objects (the way storages and parameters are encoded) are ordered by the same relation.
    Only the order is judged here; element types whose Python form is not faithful (C12's subject) are skipped."""
    from pytezos.michelson.types.base import MichelsonType
    ecls = MichelsonType.match(t)
    py = []
    distinct = []
    for v in vals:   # the generated order, without repetitions (a Python list naming one element twice is refused, which is fine)
        if all(rv.compare(t, v, o) != 0 for o in distinct):
            distinct.append(v)
    for v in distinct:
        m = rv.to_micheline(t, v, "optimized")
        try:
            o = ecls.from_micheline_value(m).to_python_object(comparable=True)
            hash(o)
            if ecls.from_python_object(o).to_micheline_value(mode="optimized") != ecls.from_micheline_value(m).to_micheline_value(mode="optimized"):
                return
        except Exception:
            return
        py.append(o)
    for kind in ("set", "map", "big_map"):
        ct = rv.T(kind, t) if kind == "set" else rv.T(kind, t, rv.T("nat"))
        ccls = MichelsonType.match(ct)
        obj = list(py) if kind == "set" else {o: i for i, o in enumerate(py)}
        try:
            built = ccls.from_python_object(obj)
            out = built.to_micheline_value(mode="optimized", lazy_diff=True) if kind == "big_map" else built.to_micheline_value(mode="optimized")
        except Exception as e:
            raise Violation("%s of %s cannot be built from the Python values %r (given in arbitrary order): %r" % (kind, _ts(t), py, e), case,
                            "python-route-raise:" + kind)
        keys = [rv.from_micheline(t, x if kind == "set" else x["args"][0]) for x in out]
        if keys != srt:
            raise Violation("%s of %s built from Python values %r is %s; ordered and deduplicated by the Tezos order it is %s" % (
                kind, _ts(t), py, [rv.to_micheline(t, k) for k in keys], [rv.to_micheline(t, k) for k in srt]), case,
                "python-route-order:" + kind)
        try:
            ccls.from_micheline_value(out)
        except Exception as e:
            raise Violation("%s of %s built from Python values renders as %s, which its own parser rejects: %r" % (kind, _ts(t), out, e), case,
                            "python-route-unparsable:" + kind)
        # the same element named twice in two Python spellings (a timestamp as number and as text, bytes as bytes and as hex, an
        # address with and without %default): refused, or taken once -- never stored twice
        alt = _alt_spelling(t, distinct[0], py[0]) if py else None
        if alt is not None:
            obj2 = [alt] + list(py) if kind == "set" else dict([(alt, 99)] + [(o, i) for i, o in enumerate(py)])
            try:
                built2 = ccls.from_python_object(obj2)
                out2 = built2.to_micheline_value(mode="optimized", lazy_diff=True) if kind == "big_map" else built2.to_micheline_value(mode="optimized")
            except Exception:
                continue
            keys2 = [rv.from_micheline(t, x if kind == "set" else x["args"][0]) for x in out2]
            if any(rv.compare(t, a, b) != -1 for a, b in zip(keys2, keys2[1:])):
                raise Violation("%s of %s built from Python values %r (one element spelled twice) holds %s: not strictly increasing / duplicated" % (
                    kind, _ts(t), obj2, [rv.to_micheline(t, k) for k in keys2]), case, "python-route-duplicate:" + kind)


# values travel in cases as readable Micheline (JSON-serialisable) and are decoded with the reference parser
def _enc(t, v):
    return rv.to_micheline(t, v)


_T = {}


def _dec(x):
    return rv.from_micheline(_T["t"], x)


def oracle(case):
    _T["t"] = case["t"]
    m = case["mode"]
    if m == "pair":
        return check_pair(case)
    if m == "triple":
        return check_triple(case)
    return check_collection(case)


def replay(case):
    oracle(case)


def _ctypes(depth):
    return gt.comparable_types(depth)


@st.composite
def respell(draw, m):
    """A signature is 64 (96) raw bytes; the notations edsig / spsig / p2sig / sig denote the same value. Every generic
    `sig..` literal in the Micheline value is re-spelled under a randomly chosen prefix."""
    if isinstance(m, list):
        return [draw(respell(x)) for x in m]
    if isinstance(m, dict):
        if "string" in m and len(m["string"]) == 96 and m["string"].startswith("sig"):
            dec = rc_mod().tz_decode(m["string"])
            if dec and dec[0] == "sig":
                return {"string": rc_mod().tz_encode(dec[1], draw(st.sampled_from(["sig", "sig", "edsig", "spsig", "p2sig"])))}
            return m
        if "args" in m:
            return dict(m, args=[draw(respell(a)) for a in m["args"]])
    return m


def rc_mod():
    from vlib import ref_crypto
    return ref_crypto


@st.composite
def pair_cases(draw, depth):
    t = draw(_ctypes(depth))
    a = draw(gt.values(t))
    b = draw(gt.near(t, a)) if draw(st.integers(0, 4)) else draw(gt.values(t))
    alt = draw(st.sampled_from([None, "before", "after"])) if _stringly(t) != t else None
    return {"mode": "pair", "t": t, "a": draw(respell(_enc(t, a))), "b": draw(respell(_enc(t, b))), "alt": alt}


@st.composite
def triple_cases(draw, depth):
    t = draw(_ctypes(depth))
    a = draw(gt.values(t))
    b = draw(gt.near(t, a))
    c = draw(gt.near(t, draw(st.sampled_from([a, b]))))
    xs = [x for x in (a, b, c)]
    # only triples whose three reference comparisons are all constrained
    if any(rv.compare(t, x, y) is rv.UNCONSTRAINED for x in xs for y in xs):
        c = b
    return {"mode": "triple", "t": t, "a": draw(respell(_enc(t, a))), "b": draw(respell(_enc(t, b))), "c": draw(respell(_enc(t, c)))}


@st.composite
def coll_cases(draw, depth):
    t = draw(_ctypes(depth))
    a = draw(gt.values(t))
    vals = [a]
    for _ in range(draw(st.integers(1, 5))):
        vals.append(draw(gt.near(t, draw(st.sampled_from(vals)))))
    vals = gt._consistent(t, vals)
    return {"mode": "coll", "t": t, "vals": [draw(respell(_enc(t, v))) for v in vals], "swap": draw(st.integers(0, 5))}


def _prop(case, stats):
    res = oracle(case)
    t = case["t"]
    _T["t"] = t
    if case["mode"] == "pair":
        a, b = _dec(case["a"]), _dec(case["b"])
        differ = a != b
        bl = _blame(t, a, b) if differ else "equal"
        nt = differ and (t["prim"] not in ("pair", "or", "option") or bl != "pair:later")
        stats.case(case, differ, "pair:%s:%s" % (t["prim"], "unconstrained" if res is rv.UNCONSTRAINED else
                                                  ("equal" if not differ else "differ")),
                   sample={"type": _ts(t), "a": case["a"], "b": case["b"], "want": None if res is rv.UNCONSTRAINED else res})
        if differ:
            stats.label("decides:" + bl.split(">")[0])
    elif case["mode"] == "triple":
        stats.case(case, True, "triple:" + t["prim"], sample={"type": _ts(t), "a": case["a"], "b": case["b"], "c": case["c"]})
    else:
        stats.case(case, len(res) >= 2, "collection:" + t["prim"], sample={"type": _ts(t), "sorted": len(res)})


def run(h):
    depth = 2 if h.quick else 3
    sh = 8 if h.quick else 16
    h.run_given(lambda: pair_cases(depth), _prop, h.n(300, 8000), shards=sh, name="pairs")
    h.run_given(lambda: triple_cases(depth), _prop, h.n(80, 2500), shards=sh, name="triples")
    h.run_given(lambda: coll_cases(depth), _prop, h.n(60, 1500), shards=sh, name="collections")
