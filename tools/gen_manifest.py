#!/usr/bin/env python3
"""Regenerates MANIFEST.json from the table below (python3 tools/gen_manifest.py)."""
import json
import os

HERE = os.path.dirname(os.path.dirname(os.path.abspath(__file__)))
BASELINE_OFF = ("cd /repo && /venv/bin/python -m pytest -ra -q -p no:cacheprovider --timeout=900 "
                "--continue-on-collection-errors")

# pid -> (technique, level text, level note, design ref)
CHECKS = {
    "C17": ("hypothesis PBT, metamorphic relation: run / pack with vs without (two independent) re-annotations of every type expression",
            "Programs from the type-directed generator (profile weighted to right combs, GET n / UPDATE n / UNPAIR n, PACK/UNPACK, "
            "values flowing out of field-annotated pair components into every other instruction family, lambdas / APPLY) x "
            "inputs x environments, with every type expression re-annotated per occurrence; the un-annotated and the annotated "
            "runs must end with the same stack (types, values, pack() bytes) or fail at the same instruction with the same "
            "payload; typed values pack/unpack identically under re-annotated types.",
            "Annotations inside lambda bodies are left untouched when the lambda's code is observable as data (PACK, FAILWITH, "
            "lambda left on the stack); final values are compared as Tezos values and through pack() bytes, not through "
            "pytezos' spelling of combs.", "9/C17"),
    "C19": ("exhaustive enumeration of macro names x hypothesis stacks vs a direct reference meaning of each macro",
            "Every comparison / conditional / assertion macro, DI..IP, DU..UP, every PAIR/UNPAIR tree up to 6 (thorough 8) leaves, "
            "every C[AD]+R / SET_C[AD]+R / MAP_C[AD]+R path up to 5 (thorough 6) letters, with and without annotations: the "
            "macro text is parsed and executed; the result must equal the macro's meaning computed directly on reference values "
            "(never through the expansion); UNP..R undoes P..R; MAP bodies include one that reads below its argument.",
            "Meanings written from the Michelson reference's macro definitions.", "9/C19"),
    "C22": ("hypothesis-generated REPL sessions, metamorphic relation: session with failing cells vs the same session without them",
            "Sessions of declarations / BEGIN / body cells / COMMIT / free cells over storages with big maps and sapling states, "
            "with failing cells (failure injected at every instruction position of real code, at top level and inside DIP / IF / "
            "ITER / MAP / LOOP / lambda bodies, parse errors, bad declarations): after every surviving cell the stack (incl. big_map "
            "pointers and pending diffs, protection depth), the context (counters, registry, environment, sections), stdout and "
            "COMMIT results are equal in both sessions; a failing cell leaves stack and context unchanged.",
            "Which cells fail is observed, not predicted; a cell that raises instead of reporting an error is treated as failed "
            "and the equivalence is still required.", "9/C22"),
    "C24": ("hypothesis PBT against a simulated node: node's minimal-fee rule recomputed on the signed bytes",
            "Batches of 1..6 manager operations of every kind, sources of the four curves, node counters to 2^64, generated "
            "simulation results; fill() and autofill() then sign(); the signed bytes are decoded by the reference operation codec "
            "and sum(fee)*1000 >= 100000 + 1000*size + 100*sum(gas_limit) is checked in exact integer nanotez. Batches up to 50 "
            "(homogeneous ones included), caller-given reserves, and a tier steered to the 16383/16384 fee-field boundary.",
            "The node is simulated (vlib/fake_node.py); the rule is the Octez default mempool filter.", "9/C24"),
    "C25": ("hypothesis-generated client call histories against a simulated node with evolving counter and mempool",
            "Episodes build (plain, from a contract interface pinned to a past block, or via client.bulk of pre-filled groups) -> "
            "fill/autofill (repeated, failed simulations, closed mempool endpoint) -> sign -> inject (refusals, retries) / send, with bakes "
            "and foreign injections in between; at every injection the payload is decoded by the reference codec and its counters "
            "must be counter-on-node + own pending operations + 1...",
            "One group at a time (the discipline the API documents); an explicit counter= is generated only with the right value. The node is "
            "simulated; it also records whether simulations were asked at the head counter.", "9/C25"),
    "C01": ("hypothesis PBT, type-directed program generator; differential vs independent reference interpreter",
            "Well-typed programs built by construction over the supported core instruction set x inputs x environments "
            "are run by pytezos and by a reference interpreter written from the Michelson reference; final stacks (types "
            "and optimized Micheline, slot by slot) or the failure kind and FAILWITH payload must agree. Tiers: free programs "
            "(profiles core/combs/collections), focused programs (one instruction family forced per case), REPL sessions after "
            "a failing cell, an arithmetic boundary grid, hash instructions over every input length 0..300.",
            "The reference interpreter is mine; it is validated at the start of every run on the 193 Octez opcode scripts "
            "and their recorded expectations shipped in tests/. Lambdas are compared by their Micheline code. "
            "Unsupported instruction variants (bytes bitwise ops, sapling, OPEN_CHEST) are excluded. LAMBDA_REC's body stack "
            "order and the type of MAP over an empty collection are recorded known findings (narrow signatures).", "9/C01"),
    "C02": ("hypothesis PBT, reference static typechecker vs runtime value classes (deep walk)",
            "Same program family as C01 plus contracts through Interpreter.run_code: after every top-level instruction "
            "the stack has the statically computed depth and every slot has the "
            "statically computed type and every nested component instance's class agrees with its parent's type "
            "argument; returned storage parses at the declared storage type.",
            "Static types come from the generator's own typechecker (gen_programs.types_after), cross-checked against "
            "the reference interpreter's result types.", "9/C02"),
    "C12": ("hypothesis PBT, round-trip oracle through Python objects in both directions + layout determinism",
            "Annotated storage/parameter types with named/unnamed/duplicate/colliding field names, enums, options, "
            "collections with composite keys, big_map literals: from_python_object(to_python_object(v)) == v in "
            "optimized Micheline, ContractData / ContractEntrypoint decode-encode both ways, field names distinct and "
            "deterministic.",
            "Nested option (Some None) is a recorded known finding (C12-nested-option) and is excluded by a narrow "
            "signature; search continues behind it.", "9/C12"),
    "C13": ("exhaustive small or-trees x annotation placements + hypothesis-sampled deeper trees vs reference entrypoint table",
            "Every or-tree shape with <=4 leaves and every annotation placement over a name pool, plus sampled deeper "
            "trees: list_entrypoints == reference table, duplicates rejected, to_parameters/from_parameters mutual "
            "inverses for every leaf path and every listed entrypoint (leaves include options, big_map literals, empty collections; "
            "names up to 31 characters); the (entrypoint, argument) pair itself comes back when it is the most specific one.",
            "Reference entrypoint rules validated against the 20 recorded node answers in tests/contract_tests/*/"
            "__entrypoints__.json. Several (entrypoint, argument) answers can be right: validity predicate.", "9/C13"),
    "C14": ("hypothesis rule-based state machine vs Python dict/set model with reference order",
            "Histories of UPDATE / GET_AND_UPDATE / MEM / GET / SIZE / MAP / ITER / literal construction over sets and "
            "maps with leaf and composite key types (keys as literals or DUP copies), construction from Python objects: after every "
            "step the collection is strictly increasing in the reference order and equals the model.",
            "Reference order shared with C03.", "9/C14"),
    "C15": ("hypothesis-generated operation histories through run_code against a fake node vs layered dict model",
            "Histories of big_map GET/MEM/UPDATE/GET_AND_UPDATE across chains of calls with on-chain content served by "
            "an in-memory node: observations and the lazy diff applied as a mapping equal the model; key hashes "
            "recomputed independently. Second tier: two big maps in one storage and copies obtained by DUP of the enclosing value.",
            "The node is simulated (vlib/fake_node.py subclassing RpcNode); the script-expression hash uses the "
            "reference legacy PACK validated on recorded key hashes.", "9/C15"),
    "C20": ("hypothesis PBT of ticket programs, step-wise differential vs reference ticket semantics + conservation invariants",
            "Programs over TICKET/READ_TICKET/SPLIT_TICKET/JOIN_TICKETS with stack shuffling and DUP attempts, each "
            "instruction run as its own step: stacks equal the reference's, no zero-amount ticket anywhere, total "
            "amount per (ticketer, contents) conserved, DUP of ticket-bearing values fails, results typed ticket T.",
            "Reference ticket rules from the Lima changelog / Michelson reference. A second, reference-free tier runs arbitrary "
            "generated ticket programs (big maps of tickets, lambdas, options) and judges only the conservation invariant over "
            "the whole final state; it may start from a big_map of tickets living on a simulated node, forged ticket literals are tried, "
            "and every short history of take-out / put-back on such a map is enumerated.", "9/C20"),
    "C31": ("hypothesis PBT, exhaustive over list length; differential vs independent Merkle reference",
            "Every list length in the tier's range is enumerated; leaves, list-of-lists, predecessor and round are "
            "hypothesis-generated; the result is compared with an independent Merkle/base58 implementation. "
            "Exhaustive in the length dimension (the only one the padding logic depends on), sampled in the hash values.",
            "Trusts hashlib.blake2b and my 20-line reference of the Tezos Merkle construction (validated against the "
            "mainnet vectors in tests/unit_tests/test_crypto/test_hashes.py).", "9/C31"),
    "C26": ("exhaustive fault-sequence enumeration + hypothesis-generated response bodies vs reference retry policy",
            "All response sequences up to the 6-attempt limit over a 15-symbol alphabet (thorough: all 50k; quick: all "
            "with <=4 leading transients + 1/8 of the rest) and generated bodies are played to RpcNode through a "
            "scripted requests.request / recorded sleep; calls, delays, result and raised error are compared with a "
            "reference policy that branches both ways where the statement is silent.",
            "requests.request and time.sleep are replaced in pytezos.rpc.node inside the harness process; real "
            "requests.Response objects are used. Error bodies that are not lists of {id,...} objects are outside the "
            "node's format and only the call count is judged for them.", "9/C26"),
    "C27": ("exhaustive enumeration of identifier forms vs reference lookup order",
            "Every identifier built from registered handler keys, their components and fresh tokens in the four "
            "stated forms, as last element of lists of length 1..3, is mapped through RpcError.from_errors and the "
            "class compared with the reference lookup order over the declared registry; each id is mapped repeatedly.",
            "The registry is the set of error ids declared by the error classes, read from the source with ast, and must equal "
            "RpcError.__handlers__ (only 5 keys are registered today). For ids deeper than "
            "<category>.<name> both readings of 'category' are accepted.", "9/C27"),
    "C28": ("exhaustive enumeration of outcome sequences per node count",
            "All 5^L outcome sequences (L=6 quick, 8 thorough) for 1..4 nodes; each HTTP call's URL is recorded and "
            "must be node i mod n for the i-th client request; request styles include "
            "calls from a second thread, node lists may name one endpoint several times.",
            "Outcomes are produced by a scripted requests.request (real Response objects / ConnectionError).", "9/C28"),
    "C29": ("exhaustive small histories + hypothesis-sampled histories vs reference change list",
            "Histories with fresh-token values (the stated precondition holds by construction): every range length up "
            "to 24/40 with <=2 change points x 4 steps exhaustively, plus sampled ranges to 300 levels, <=6 change "
            "points, steps 1..400; find_state_changes must equal the reference list in increasing order, "
            "find_state_change the first change, get() may only be called inside [last, head]. Values include None and "
            "pairwise-distinct falsy values.",
            "Non-termination is detected deterministically by a call budget on get() (40x the range length), not by "
            "wall clock.", "9/C29"),
    "C30": ("hypothesis PBT, round-trip oracle (apply/revert) on edit-script text pairs and protocol pairs",
            "Text pairs built as edit scripts over a hostile line alphabet, context sizes 0..5: apply(make_patch)==new, "
            "revert==old, identical=>empty; Protocol.diff/patch on generated multi-file protocols reproduces the "
            "second protocol's files.", "Texts may contain the other characters str.splitlines splits on; "
            "the line model is still \\n-separated.", "9/C30"),
    "C32": ("hypothesis PBT, constructor-known verdict vs ViewSection.match",
            "View names over allowed+forbidden characters with boundary lengths, code trees built by a constructor "
            "that tracks lambda bodies (LAMBDA, LAMBDA_REC, pushed literals nested in Pair/Some/Left/Right/list/Elt); "
            "reject iff the statement's rule says so, in both directions.",
            "Lambda_rec data literals are not a registered primitive in pytezos (match fails for an unrelated reason) "
            "and are excluded; CREATE_CONTRACT's inner script is a separate contract: it may itself use the restricted "
            "instructions (generated), SELF is not generated there.", "9/C32"),
    "C09": ("exhaustive over table rows + hypothesis payloads/corruptions vs own base58check and prefix registry",
            "Every table row: extremes (=> all payloads by monotonicity) and random payloads round-trip with the "
            "documented prefix/length and equal the reference encoding; corrupted strings (valid-checksum variants "
            "included) that the reference decoder rejects must be rejected by base58_decode and every is_* predicate; "
            "pairwise table ambiguity check; table compared with an independently written registry; every ordered pair of "
            "kinds decoded back to back in one process (state between calls); hex / padded respellings.",
            "The registry in vlib/ref_crypto.py is written from Tezos' base58.ml from memory; each row was confirmed by "
            "computing min/max encodings (prefix and length agree).", "9/C09"),
    "C05": ("hypothesis PBT (trees, near-pairs, byte mutations) + exhaustive short strings + atheris differential fuzzing",
            "forge == independent reference encoder byte for byte; unforge(forge(e)) == normalize(e); distinct normal "
            "forms encode differently; primitive table == independent table; every byte string the strict reference "
            "decoder rejects (unknown tag/prim, truncation, trailing bytes, non-minimal int) must be rejected; all "
            "strings of length <=2 and all prim tags exhaustively; thorough adds 16 atheris workers with the "
            "differential oracle inside the target.",
            "Reference codec written from the Micheline/data-encoding rules; deprecated tags 0x1c/0x4a are not "
            "asserted (pytezos spells them differently on purpose). Rejection is asserted one-directionally.", "9/C05"),
    "C33": ("hypothesis PBT, differential vs reference expansion with independently computed expression hashes",
            "Acyclic constant graphs (chains to depth 5) and scripts with references at leaf/argument/sequence/root "
            "positions, unknown hashes, reference-free scripts; registry key == reference hash, expansion == reference "
            "expansion, input not mutated, unknown raises, ContractInterface sees the expanded script; every context is "
            "asked twice and again after late registration.",
            "Hash = b58('expr', blake2b-256(reference binary encoding)), the same construction C05 validates.", "9/C33"),
    "C18": ("hypothesis PBT, grammar-generated type/data/code/script Micheline, parse(format(e)) == e in both layouts",
            "Expressions are generated from a grammar of Michelson types, data, code and scripts (every type primitive, "
            "every data constructor, every instruction with its argument shape, Tezos-grammar annotations), printed "
            "inline and multi-line and parsed back.",
            "Strings are printable ASCII plus newline (Michelson strings); macros are excluded (C19).", "9/C18"),
    "C06": ("hypothesis PBT, differential vs reference operation encoder + strict reference decoder",
            "Groups of every current-protocol kind with boundary-valued numeric fields, all address kinds, reserved and "
            "named entrypoints; forged bytes must equal the reference encoding and decode (strictly, full consumption) "
            "to the same group; tag table compared.",
            "Reference codec written from the protocol schema and validated on the 4 recorded groups in "
            "tests/unit_tests/test_operation/data; reveal proof layout mirrored, not re-derived.", "9/C06"),
    "C07": ("hypothesis PBT with independent verifiers (cryptography, py_ecc pairing) and single-bit alterations",
            "Keys of four curves x messages (bytes, hex strings) x alterations (message bit, signature bit/byte with "
            "valid checksum, other key, other curve, generic/specific prefix): own signature verifies, independent "
            "verifier accepts, altered triples (incl. one bit of the encoded public key, the signature bytes under another curve's prefix; "
            "judged before or after the genuine triple) rejected, CHECK_SIGNATURE agrees; hex-text messages in any letter case.",
            "BLS reference uses py_ecc primitives (same library as pytezos, different entry points): semi-independent. "
            "BLS cases are few (about 1 s each).", "9/C07"),
    "C08": ("hypothesis PBT with independent key derivation, address hashing, BIP-39 checksum and PBKDF2 seed",
            "Public keys vs cryptography/py_ecc derivation, pkh vs own base58+blake2b and HASH_KEY, plain/encrypted "
            "export-import (seed and 64-byte Ed25519 forms), wrong passphrase rejected, validate_mnemonic iff own "
            "BIP-39 checksum, from_mnemonic deterministic and equal to an independent PBKDF2 derivation, the wallet-file route "
            "(from_faucet) under the same acceptance rule; a volume tier derives public key and address for hundreds of further "
            "secrets per curve.",
            "Wordlist data comes from the `mnemonic` package. A BIP-39 seed that is not a valid scalar of the curve "
            "(common for BLS) may be refused; only determinism is required there.", "9/C08"),
    "C23": ("hypothesis PBT with independent signature verification over watermark || reference-encoded bytes",
            "Groups (manager, failing_noop, activate_account, consensus, mixed passes) x keys of four curves x chain "
            "ids: signature verifies independently under the right watermark, payload and hash recomputed "
            "independently, mixed passes rejected.",
            "Forged bytes come from the reference codec of C06 (endorsement: branch || 00 || level).", "9/C23"),
    "C03": ("hypothesis PBT, differential vs reference total order + order axioms + collection literals/UPDATE",
            "Comparable types to depth 2/3 with near-by value pairs/triples: COMPARE sign vs reference order, "
            "antisymmetry, reflexivity, transitivity; sorted set/map/big_map literals accepted and kept, UPDATE-built sets "
            "sorted, unsorted/duplicate literals rejected; signatures in every base58 spelling, same-curve key pairs; the same literals "
            "re-read as plain strings in the same process; sets / maps / big maps built from Python objects (any order, one element in two "
            "spellings).",
            "Reference order written from script_comparable / Signature / Destination compare; three sub-cases are "
            "left unconstrained in direction (P-256 keys of different parity, signatures of different length).", "9/C03"),
    "C04": ("hypothesis PBT differential vs reference PACK + byte mutations + atheris campaign on UNPACK",
            "pack() and PACK == reference bytes; unpack/UNPACK invert; mutated strings the strict reference decoder "
            "rejects make UNPACK return None and unpack raise; a cross-type tier unpacks at another leaf type of the same "
            "Micheline kind (three-valued leaf predicate); thorough adds a coverage-guided campaign with the "
            "oracle in the target.",
            "Annotation-free types (annotations are C17's subject); lambda bodies without optimizable literals.", "9/C04"),
    "C10": ("hypothesis PBT, reference byte layout + round trip in bytes space + helper inverses",
            "Domain values alone and nested: optimized bytes equal the reference layout, read back to the same value, "
            "forge/unforge helpers are inverse, blind_unpack of fixed-length forms (chain ids and signatures that look "
            "like packed data included) returns the encoded kind.",
            "txr1 addresses are exercised under pytezos' own tx_rollup_l2_address type; blind_unpack is judged only "
            "on fixed-length forms (an address+entrypoint can be byte-identical to a public key).", "9/C10"),
    "C11": ("hypothesis PBT, round trip through readable/optimized/legacy_optimized with reference parser as validity predicate",
            "Every type shape incl. big_map literals, full-range timestamps, huge ints, combs 2..7 in four input "
            "spellings: each rendering re-parses to the same optimized form and denotes the original value under an "
            "independent parser (strict RFC 3339).",
            "big_map literals are rendered with lazy_diff=None (the documented way to obtain the literal).", "9/C11"),
    "C16": ("exhaustive boundary cross product + hypothesis values vs reference big-int arithmetic",
            "All 43 (instruction, operand types) combinations over the full cross product of boundary sets plus random "
            "values to 4096 bits: result type, value, exact failure and None conditions, BYTES/INT/NAT inverse laws.",
            "Bitwise/shift forms on bytes and SUB mutez mutez are outside the implemented instruction set and are "
            "excluded (listed in the evidence).", "9/C16"),
    "C21": ("hypothesis PBT of group/field laws against scalar arithmetic mod r and own point serialisation",
            "G1/G2 points kG (k=0 infinity, 1, 2, r-1, full-width), Fr scalars incl. 0, r-1, r, r+1, negatives: "
            "addition, negation, scalar multiplication, associativity, distributivity, Fr ring ops, INT, encodings, "
            "PAIRING_CHECK on balanced/perturbed/empty/infinity lists, lists with repeated pairs, each list evaluated "
            "twice in one process.",
            "Expected points are computed with py_ecc (same library pytezos uses) along a different computation path "
            "and serialised by the check itself.", "9/C21"),
}

NOT_BUILT = {}
LEVELS = {"C26": "fault_enumeration", "C28": "fault_enumeration"}


def main():
    props = [json.loads(l) for l in open(os.path.join(HERE, "properties.jsonl"))]
    checks, na = [], []
    for p in props:
        pid = p["id"]
        if pid in CHECKS:
            tech, text, note, ref = CHECKS[pid]
            checks.append({
                "property_id": pid,
                "quick_cmd": "./check %s quick" % pid,
                "thorough_cmd": "./check %s thorough" % pid,
                "evidence_file": "evidence/%s.json" % pid,
                "replay_cmd_template": "./check %s --replay {path}" % pid,
                "engine": "hypothesis",
                "level_claimed": {"category": LEVELS.get(pid, "exploration"), "text": text, "design_ref": "DESIGN.md section " + ref},
                "level_note": note,
                "technique": tech,
            })
        else:
            na.append({"property_id": pid,
                       "reason": NOT_BUILT.get(pid, "check not built yet in this round; the technique applies "
                                                    "(design in DESIGN.md section 9) but nothing is claimed without a running check")})
    m = {
        "version": 1,
        "setup_cmd": "./setup.sh",
        "hooks": {"guard": "PYTEZOS_VERIF", "enable": "none needed: no source hooks; checks import /repo/src directly",
                  "baseline_off_cmd": BASELINE_OFF, "source_commits": [], "add_only": True},
        "engines": [{"name": "hypothesis", "path": "vlib/harness.py",
                     "serves_properties": [c["property_id"] for c in checks],
                     "kind_free_text": "Hypothesis 6.168 property-based testing (given + stateful), exhaustive "
                                       "enumeration of small finite sub-domains, atheris for byte-level decoders"}],
        "checks": checks,
        "not_applicable": na,
        "notes": "Entry point ./check <ID> <quick|thorough>; replays/<ID>/ are re-run first; known_findings.json lists "
                 "recorded defects; see DESIGN.md.",
    }
    with open(os.path.join(HERE, "MANIFEST.json"), "w") as f:
        json.dump(m, f, indent=1)
        f.write("\n")
    import jsonschema  # noqa
    jsonschema.validate(m, json.load(open("/root/.vp/MANIFEST.schema.json")))
    print("MANIFEST.json: %d checks, %d not claimed" % (len(checks), len(na)))


if __name__ == "__main__":
    main()
