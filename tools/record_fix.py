#!/usr/bin/env python3
"""tools/record_fix.py <PID> <commit> "<what failed>" [violation-json ...]
Records a repaired defect: known_findings.json 'fixed' entry, reverse patch as a mutant, replay files."""
import json, os, shutil, subprocess, sys
HERE = os.path.dirname(os.path.dirname(os.path.abspath(__file__)))
pid, commit, what = sys.argv[1:4]
full = subprocess.run(["git", "-C", "/repo", "rev-parse", "--short", commit], capture_output=True, text=True).stdout.strip()
kf = os.path.join(HERE, "known_findings.json")
doc = json.load(open(kf))
line = "fixed: property=%s %s %s" % (pid, full, what)
if line not in doc["fixed"]:
    doc["fixed"].append(line)
json.dump(doc, open(kf, "w"), indent=1)
rev = subprocess.run(["git", "-C", "/repo", "diff", full, full + "^"], capture_output=True, text=True).stdout
os.makedirs(os.path.join(HERE, "mutants", pid), exist_ok=True)
open(os.path.join(HERE, "mutants", pid, "revert_fix_%s.patch" % full), "w").write(rev)
os.makedirs(os.path.join(HERE, "replays", pid), exist_ok=True)
for v in sys.argv[4:]:
    shutil.copy(v, os.path.join(HERE, "replays", pid, "fixed_%s_%s" % (full, os.path.basename(v))))
print(line)
