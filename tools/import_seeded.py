#!/usr/bin/env python3
"""tools/import_seeded.py <out-dir> [ID-x ...]   (development tool)

Takes candidate property-breaking changes written by independent sub-agents (<out-dir>/<PID>/<x>/{patch.diff,demo.py,
notes.md}), and for each one, in a scratch git worktree of /repo at HEAD (outside /repo and /verif):
  1. the patch applies (git apply) to the current HEAD;
  2. demo.py exits 0 on the clean tree and non-zero on the patched tree;
  3. the pinned test-suite still passes (1081/1081 stable tests) on the patched tree;
  4. ./check <PID> quick against the patched source (VERIF_REPO_SRC) -> CAUGHT / MISSED.
Confirmed changes (1-3) are stored as /verif/seeded/<PID>-<x>/{patch.diff,demo.py,notes.md,meta.json}; (4) is recorded in
meta.json. The scratch worktree is removed afterwards."""
import json
import os
import re
import shutil
import subprocess
import sys
import tempfile
import xml.etree.ElementTree as ET
from concurrent.futures import ThreadPoolExecutor

HERE = os.path.dirname(os.path.dirname(os.path.abspath(__file__)))
BASE = json.load(open("/root/.vp/BASELINE.json"))


def sh(cmd, **kw):
    return subprocess.run(cmd, shell=isinstance(cmd, str), capture_output=True, text=True, **kw)


def suite(wt):
    out = tempfile.mktemp(suffix=".xml")
    sh("cd %s && PYTHONPATH=%s/src /venv/bin/python -m pytest -ra -q -p no:cacheprovider --timeout=900 "
       "--continue-on-collection-errors --junitxml=%s" % (wt, wt, out))
    passed = set()
    try:
        for tc in ET.parse(out).getroot().iter("testcase"):
            if not any(ch.tag in ("failure", "error", "skipped") for ch in tc):
                nm = tc.get("name").replace(re.sub(r"[^A-Za-z0-9]", "_", wt), "_repo")
                passed.add("%s::%s" % (tc.get("classname"), nm))
    finally:
        if os.path.exists(out):
            os.unlink(out)
    want = set(BASE["stable_pass"])
    return len(want & passed), len(want)


def demo(wt, path):
    env = dict(os.environ, PYTHONPATH=wt + "/src", PYTHONHASHSEED="0")
    r = sh(["/venv/bin/python", path], env=env, cwd=os.path.dirname(path), timeout=1800)
    return r.returncode, (r.stdout + r.stderr)[-400:]


def check(pid, src, tier="quick", seed="1"):
    ev = tempfile.mkdtemp(prefix="vev_")
    env = dict(os.environ, VERIF_REPO_SRC=src, VERIF_EVIDENCE_DIR=ev, VERIF_SEED=seed)
    r = sh([os.path.join(HERE, "check"), pid, tier], env=env, cwd=HERE)
    shutil.rmtree(ev, ignore_errors=True)
    det = [l for l in r.stdout.splitlines() if l.startswith("  detail")]
    viol = [l for l in r.stdout.splitlines() if l.startswith("VIOLATION")]
    if r.returncode == 1 and viol:
        return "CAUGHT", (det[0][:300] if det else "")
    return "MISSED(exit %d)" % r.returncode, r.stderr[-300:]


RENAME = dict(kv.split(":") for kv in os.environ.get("SEED_RENAME", "").split(",") if kv)  # e.g. a:c,b:d for a second round


def one(outdir, pid, x, do_suite=True):
    d = os.path.join(outdir, pid, x)
    name = "%s-%s" % (pid, RENAME.get(x, x))
    res = {"name": name, "property": pid}
    patch = os.path.join(d, "patch.diff")
    if not (os.path.exists(patch) and os.path.exists(os.path.join(d, "demo.py"))):
        res["status"] = "incomplete"
        return res
    wt = tempfile.mkdtemp(prefix="vseed_%s_" % name)
    os.rmdir(wt)
    try:
        r = sh(["git", "-C", "/repo", "worktree", "add", "--detach", wt, "HEAD"])
        if r.returncode:
            res["status"] = "worktree-failed: " + r.stderr[-200:]
            return res
        tmpdemo = os.path.join(wt, "_demo_%s.py" % name.replace("-", "_"))
        shutil.copy(os.path.join(d, "demo.py"), tmpdemo)
        rc0, out0 = demo(wt, tmpdemo)
        res["demo_clean_exit"] = rc0
        r = sh(["git", "-C", wt, "apply", patch])
        if r.returncode:
            r = sh(["git", "-C", wt, "apply", "--3way", patch])
        if r.returncode:
            res["status"] = "patch-does-not-apply: " + r.stderr[-300:]
            return res
        rc1, out1 = demo(wt, tmpdemo)
        res["demo_patched_exit"] = rc1
        res["demo_patched_tail"] = out1[-300:]
        if do_suite:
            ok, n = suite(wt)
            res["suite"] = "%d/%d" % (ok, n)
        res["patch_head"] = sh(["git", "-C", "/repo", "rev-parse", "--short", "HEAD"]).stdout.strip()
        res["patch_text"] = sh(["git", "-C", wt, "diff", "--", "src"]).stdout
        verdict, detail = check(pid, wt + "/src")
        res["check_quick"] = verdict
        res["check_detail"] = detail
        confirmed = rc0 == 0 and rc1 != 0 and (not do_suite or res["suite"] == "%d/%d" % (n, n))
        res["status"] = "confirmed" if confirmed else "rejected"
        return res
    finally:
        sh(["git", "-C", "/repo", "worktree", "remove", "--force", wt])
        shutil.rmtree(wt, ignore_errors=True)


def store(outdir, res):
    pid, x = res["name"].split("-")
    src = os.path.join(outdir, pid, {v: k for k, v in RENAME.items()}.get(x, x))
    dst = os.path.join(HERE, "seeded", res["name"])
    os.makedirs(dst, exist_ok=True)
    with open(os.path.join(dst, "patch.diff"), "w") as f:
        f.write(res.pop("patch_text"))
    shutil.copy(os.path.join(src, "demo.py"), os.path.join(dst, "demo.py"))
    notes = ""
    if os.path.exists(os.path.join(src, "notes.md")):
        shutil.copy(os.path.join(src, "notes.md"), os.path.join(dst, "notes.md"))
        notes = open(os.path.join(src, "notes.md")).read()
    meta = {
        "property": pid,
        "origin": "independent sub-agent given only the property text and a scratch worktree of /repo",
        "needs_to_manifest": notes.strip()[:1500],
        "confirmed_by": {
            "worktree_head": res.get("patch_head"),
            "demo_exit_on_clean_tree": res.get("demo_clean_exit"),
            "demo_exit_on_patched_tree": res.get("demo_patched_exit"),
            "pinned_suite_on_patched_tree": res.get("suite"),
            "commands": ["git apply patch.diff (scratch worktree of /repo at HEAD)",
                         "PYTHONPATH=<wt>/src /venv/bin/python demo.py (clean and patched)",
                         "pinned pytest command from /root/.vp/BASELINE.json compared with stable_pass",
                         "VERIF_REPO_SRC=<wt>/src ./check %s quick" % pid],
        },
        "check_quick": res.get("check_quick"),
        "check_detail": res.get("check_detail"),
    }
    with open(os.path.join(dst, "meta.json"), "w") as f:
        json.dump(meta, f, indent=1)
        f.write("\n")


def main(argv):
    outdir = argv[0]
    want = argv[1:]
    jobs = []
    for pid in sorted(os.listdir(outdir)):
        if not os.path.isdir(os.path.join(outdir, pid)):
            continue
        for x in sorted(os.listdir(os.path.join(outdir, pid))):
            if os.path.isdir(os.path.join(outdir, pid, x)):
                if not want or "%s-%s" % (pid, x) in want or pid in want:
                    jobs.append((pid, x))
    with ThreadPoolExecutor(max_workers=int(os.environ.get("SEED_JOBS", "3"))) as ex:
        for res in ex.map(lambda j: one(outdir, *j), jobs):
            txt = res.get("patch_text")
            if res["status"] == "confirmed":
                store(outdir, res)
            print("%-8s %-10s demo %s->%s suite %s check %s %s" % (
                res["name"], res["status"][:60], res.get("demo_clean_exit"), res.get("demo_patched_exit"), res.get("suite"),
                res.get("check_quick"), (res.get("check_detail") or "")[:160].replace("\n", " ")), flush=True)


if __name__ == "__main__":
    main(sys.argv[1:])
