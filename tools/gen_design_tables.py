#!/usr/bin/env python3
"""Rewrites the generated tables of DESIGN.md (between <!-- BEGIN:x --> / <!-- END:x --> markers) from
known_findings.json, seeded/*/meta.json, mutants/ and tools/seeded_notes.json."""
import glob, json, os, re
HERE = os.path.dirname(os.path.dirname(os.path.abspath(__file__)))
kf = json.load(open(os.path.join(HERE, "known_findings.json")))
notes = json.load(open(os.path.join(HERE, "tools", "seeded_notes.json")))


def fixed_table():
    rows = ["| Property | Commit | What failed on the pinned tree |", "|---|---|---|"]
    for line in kf["fixed"]:
        m = re.match(r"fixed: property=(\S+) (\S+) (.*)", line)
        rows.append("| %s | `%s` | %s |" % (m.group(1), m.group(2), m.group(3).replace("|", "\\|")))
    return "\n".join(rows)


def findings_table():
    rows = ["| Property | Id | What fails | Why recorded rather than repaired |", "|---|---|---|---|"]
    for f in kf["findings"]:
        rows.append("| %s | %s | %s | %s |" % (f["property"], f["id"], f["what_fails"].replace("|", "\\|"), f["why_not_fixed"]))
    return "\n".join(rows)


def seeded_table():
    rows = ["| Change | Property | What it breaks / what it needs to manifest | First run | Now | What was strengthened |",
            "|---|---|---|---|---|---|"]
    for d in sorted(glob.glob(os.path.join(HERE, "seeded", "*"))):
        name = os.path.basename(d)
        meta = json.load(open(os.path.join(d, "meta.json")))
        n = notes.get(name, {})
        first = meta.get("check_quick", "?")
        rows.append("| %s | %s | %s | %s | %s | %s |" % (name, meta["property"], n.get("what", "").replace("|", "\\|"),
                                                    "caught" if first.startswith("CAUGHT") else "missed",
                                                    n.get("now", "caught"), n.get("strengthened", "-")))
    return "\n".join(rows)


def mutant_counts():
    rows = []
    for d in sorted(glob.glob(os.path.join(HERE, "mutants", "*"))):
        rows.append("%s: %d" % (os.path.basename(d), len(glob.glob(os.path.join(d, "*.patch")))))
    return "Hand-written and fix-reverting mutants per property (all caught by `./selftest.py`): " + ", ".join(rows) + "."


p = os.path.join(HERE, "DESIGN.md")
s = open(p).read()
for key, fn in (("FIXED", fixed_table), ("FINDINGS", findings_table), ("SEEDED", seeded_table), ("MUTANTS", mutant_counts)):
    body = "<!-- BEGIN:%s -->\n%s\n<!-- END:%s -->" % (key, fn(), key)
    s = re.sub(r"<!-- BEGIN:%s -->.*?<!-- END:%s -->" % (key, key), lambda m, b=body: b, s, flags=re.S)
open(p, "w").write(s)
print("DESIGN.md tables regenerated")
