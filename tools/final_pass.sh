#!/bin/bash
# tools/final_pass.sh [seed ...]: every registered quick check on the unchanged tree, once per seed. The first seed writes evidence/ in place,
# the other seeds write to a scratch directory (removed afterwards). One line per run; non-zero exits are listed at the end.
cd "$(dirname "$0")/.."
seeds=${@:-1}
ids=$(python3 -c "import json;print(' '.join(c['property_id'] for c in json.load(open('MANIFEST.json'))['checks']))")
first=1; bad=""
for seed in $seeds; do
  for id in $ids; do
    s=$(date +%s)
    if [ $first = 1 ]; then out=$(VERIF_SEED=$seed ./check $id quick 2>&1); rc=$?
    else tmp=$(mktemp -d); out=$(VERIF_SEED=$seed VERIF_EVIDENCE_DIR=$tmp ./check $id quick 2>&1); rc=$?; rm -rf $tmp; fi
    e=$(( $(date +%s) - s ))
    echo "$id seed=$seed exit=$rc ${e}s :: $(echo "$out" | grep -E "^VIOLATION|INCONCLUSIVE" | head -2 | tr '\n' ' ') $(echo "$out" | tail -1 | cut -c1-120)"
    [ $rc != 0 ] && bad="$bad $id@$seed"
  done
  first=0
done
echo "NON-ZERO:${bad:- none}"
