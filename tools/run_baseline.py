#!/usr/bin/env python3
"""Runs the pinned suite on /repo (guard off) and compares with BASELINE.json stable_pass. Exit 0 iff all 1081 pass."""
import json, os, subprocess, sys, tempfile
import xml.etree.ElementTree as ET
base = json.load(open("/root/.vp/BASELINE.json"))
out = tempfile.mktemp(suffix=".xml")
cmd = base["cmd"].replace("<file>", out)
r = subprocess.run(cmd, shell=True, capture_output=True, text=True)
passed = set()
for tc in ET.parse(out).getroot().iter("testcase"):
    bad = any(ch.tag in ("failure", "error", "skipped") for ch in tc)
    if not bad:
        passed.add("%s::%s" % (tc.get("classname"), tc.get("name")))
os.unlink(out)
want = set(base["stable_pass"])
missing = sorted(want - passed)
print("baseline: %d/%d stable tests pass (%d passed in total)" % (len(want & passed), len(want), len(passed)))
for m in missing[:30]:
    print("  NOT PASSING:", m)
sys.exit(1 if missing else 0)
