#!/bin/bash
# tools/run_all.sh <quick|thorough> [ID ...]: runs the registered checks one after another, prints one line per check
tier=${1:-quick}; shift
ids="$@"
[ -z "$ids" ] && ids=$(python3 -c "import json;print(' '.join(c['property_id'] for c in json.load(open('MANIFEST.json'))['checks']))")
for id in $ids; do
  s=$(date +%s)
  out=$(./check $id $tier 2>&1); rc=$?
  e=$(( $(date +%s) - s ))
  echo "$id $tier exit=$rc ${e}s :: $(echo "$out" | grep -E "VIOLATION|KNOWN-FINDING|INCONCLUSIVE|HARNESS" | head -3 | tr '\n' ' ') $(echo "$out" | tail -1)"
done
