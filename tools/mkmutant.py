#!/usr/bin/env python3
"""tools/mkmutant.py <PID> <name> <repo-relative-file> <old> <new>  — writes mutants/<PID>/<name>.patch (never leaves /repo dirty)."""
import os, subprocess, sys
pid, name, rel, old, new = sys.argv[1:6]
path = os.path.join("/repo", rel)
src = open(path).read()
if src.count(old) != 1:
    sys.exit("pattern occurs %d times in %s" % (src.count(old), rel))
assert subprocess.run(["git", "-C", "/repo", "status", "--porcelain", "--", "src"], capture_output=True, text=True).stdout == "", "repo dirty"
try:
    open(path, "w").write(src.replace(old, new))
    diff = subprocess.run(["git", "-C", "/repo", "diff"], capture_output=True, text=True).stdout
finally:
    open(path, "w").write(src)
d = os.path.join(os.path.dirname(os.path.dirname(os.path.abspath(__file__))), "mutants", pid)
os.makedirs(d, exist_ok=True)
open(os.path.join(d, name + ".patch"), "w").write(diff)
print("wrote", os.path.join(d, name + ".patch"))
