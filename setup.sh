#!/bin/bash
# setup_cmd: offline install of hypothesis into /venv (no-op when present) and atheris into /verif/.deps
cd "$(dirname "$0")"
export PIP_NO_INDEX=1
/venv/bin/python -c "import hypothesis" 2>/dev/null || /venv/bin/pip install --no-index --find-links /opt/veriftools/wheels hypothesis
if [ ! -d .deps/atheris ]; then
  /venv/bin/pip install --no-index --find-links /opt/veriftools/wheels --target .deps atheris >/dev/null 2>&1 || echo "atheris unavailable: thorough byte-level campaigns fall back to hypothesis mutation"
fi
/venv/bin/python -c "import hypothesis; print('hypothesis', hypothesis.__version__)"
exit 0
