#!/usr/bin/env python3
"""Sensitivity self-test: ./selftest.py [ID ...]  (development tool, not a registered check).

For each mutants/<ID>/*.patch (git-diff format against /repo): copy /repo/src to a scratch dir outside /repo and
/verif, apply the patch there, run ./check <ID> quick with VERIF_REPO_SRC pointing at the copy and expect exit 1
with a VIOLATION line. The scratch copy is removed afterwards. seeded/<ID-*>/patch.diff are treated the same way
(property from meta.json)."""
import glob
import json
import os
import shutil
import subprocess
import sys
import tempfile

HERE = os.path.dirname(os.path.abspath(__file__))


def run_one(pid, patch, tier="quick"):
    tmp = tempfile.mkdtemp(prefix="vmut_")
    try:
        shutil.copytree("/repo/src", os.path.join(tmp, "src"))
        r = subprocess.run(["patch", "-p1", "-s", "-d", tmp, "-i", patch], capture_output=True, text=True)
        if r.returncode != 0:
            return "PATCH-FAILED " + r.stdout[-200:] + r.stderr[-200:]
        env = dict(os.environ, VERIF_REPO_SRC=os.path.join(tmp, "src"), VERIF_EVIDENCE_DIR=os.path.join(tmp, "ev"))
        r = subprocess.run([os.path.join(HERE, "check"), pid, tier], capture_output=True, text=True, env=env,
                           cwd=HERE)
        viol = [l for l in r.stdout.splitlines() if l.startswith("VIOLATION")]
        det = [l for l in r.stdout.splitlines() if l.startswith("  detail")]
        if r.returncode == 1 and viol:
            return "CAUGHT  " + (det[0][:150] if det else "")
        return "MISSED (exit %d) %s" % (r.returncode, r.stderr[-300:].replace("\n", " | "))
    finally:
        shutil.rmtree(tmp, ignore_errors=True)


def main(argv):
    tier = "quick"
    if "--thorough" in argv:
        argv.remove("--thorough")
        tier = "thorough"
    jobs = []
    for p in sorted(glob.glob(os.path.join(HERE, "mutants", "*", "*.patch"))):
        pid = os.path.basename(os.path.dirname(p))
        jobs.append((pid, p))
    for p in sorted(glob.glob(os.path.join(HERE, "seeded", "*", "patch.diff"))):
        meta = json.load(open(os.path.join(os.path.dirname(p), "meta.json")))
        jobs.append((meta["property"], p))
    if argv:
        jobs = [j for j in jobs if j[0] in argv or any(a in j[1] for a in argv)]
    bad = 0
    from concurrent.futures import ThreadPoolExecutor
    with ThreadPoolExecutor(max_workers=int(os.environ.get("SELFTEST_JOBS", "1"))) as ex:
        for (pid, p), res in zip(jobs, ex.map(lambda j: run_one(j[0], j[1], tier), jobs)):
            print("%s %-45s %s" % (pid, os.path.relpath(p, HERE), res), flush=True)
            bad += not res.startswith("CAUGHT")
    return 1 if bad else 0


if __name__ == "__main__":
    sys.exit(main(sys.argv[1:]))
