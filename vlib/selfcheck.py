"""The reference models are validated against recorded Tezos ground truth shipped in /repo/tests (data only,
no pytezos code involved). A disagreement blocks the check (Inconclusive / exit 2), never a VIOLATION."""
import glob
import json
import os
from hashlib import blake2b

from vlib import ref_crypto as rc
from vlib.harness import Inconclusive

TESTS = os.path.join(os.path.dirname(os.environ.get("VERIF_REPO_SRC", "/repo/src").rstrip("/")), "tests")
if not os.path.isdir(TESTS):
    TESTS = "/repo/tests"


def ref_ops_vectors():
    """Recorded mainnet/testnet groups: reference-encode, append the raw signature, recompute the 'o...' hash."""
    from vlib import ref_ops
    n = 0
    for p in sorted(glob.glob(os.path.join(TESTS, "unit_tests/test_operation/data/*.json"))):
        d = json.load(open(p))
        if any(c["kind"] not in ref_ops.TAGS for c in d["contents"]):
            continue
        raw = ref_ops.encode_group(d)
        sig = rc.tz_decode(d["signature"])[1]
        h = rc.tz_encode(blake2b(raw + sig, digest_size=32).digest(), "o")
        if h != d["hash"]:
            raise Inconclusive("reference operation codec disagrees with recorded group %s" % d["hash"])
        back = ref_ops.decode_group(raw)
        rec = {"branch": d["branch"], "contents": [{k: v for k, v in c.items() if k != "metadata"}
                                                    for c in d["contents"]]}
        if ref_ops.normalize_group(back) != ref_ops.normalize_group(rec):
            raise Inconclusive("reference operation decoder does not invert %s" % d["hash"])
        n += 1
    if n == 0:
        raise Inconclusive("no recorded operation groups found under %s" % TESTS)
    return n
