"""The reference models are validated against recorded Tezos ground truth shipped in /repo/tests (data only,
no pytezos code involved). A disagreement blocks the check (Inconclusive / exit 2), never a VIOLATION."""
import glob
import json
import os
from hashlib import blake2b

from vlib import ref_crypto as rc
from vlib.harness import Inconclusive

TESTS = os.path.join(os.path.dirname(os.environ.get("VERIF_REPO_SRC", "/repo/src").rstrip("/")), "tests")
if not os.path.isdir(TESTS):
    TESTS = "/repo/tests"


def ref_ops_vectors():
    """Recorded mainnet/testnet groups: reference-encode, append the raw signature, recompute the 'o...' hash."""
    from vlib import ref_ops
    n = 0
    for p in sorted(glob.glob(os.path.join(TESTS, "unit_tests/test_operation/data/*.json"))):
        d = json.load(open(p))
        if any(c["kind"] not in ref_ops.TAGS for c in d["contents"]):
            continue
        raw = ref_ops.encode_group(d)
        sig = rc.tz_decode(d["signature"])[1]
        h = rc.tz_encode(blake2b(raw + sig, digest_size=32).digest(), "o")
        if h != d["hash"]:
            raise Inconclusive("reference operation codec disagrees with recorded group %s" % d["hash"])
        back = ref_ops.decode_group(raw)
        rec = {"branch": d["branch"], "contents": [{k: v for k, v in c.items() if k != "metadata"}
                                                    for c in d["contents"]]}
        if ref_ops.normalize_group(back) != ref_ops.normalize_group(rec):
            raise Inconclusive("reference operation decoder does not invert %s" % d["hash"])
        n += 1
    if n == 0:
        raise Inconclusive("no recorded operation groups found under %s" % TESTS)
    return n


def ref_interp_vectors(verbose=False):
    """Octez' own opcode regression vectors (tests/unit_tests/test_michelson/test_repl/test_opcodes.py + opcodes/*.tz)
    are executed by the *reference* interpreter. Scripts using instructions outside the reference's scope are skipped.
    Returns (passed, skipped); any disagreement raises Inconclusive."""
    import ast
    import re
    from pytezos.michelson.parse import MichelsonParser
    from vlib import ref_interp as ri
    from vlib import ref_values as rv
    base = os.path.join(TESTS, "unit_tests/test_michelson/test_repl")
    src = open(os.path.join(base, "test_opcodes.py")).read()
    tree = ast.parse(src)
    consts = {}
    for node in tree.body:
        if isinstance(node, ast.Assign) and isinstance(node.value, ast.Constant):
            consts[node.targets[0].id] = node.value.value
    vectors = []

    class V(ast.NodeVisitor):
        def visit_Tuple(self, node):
            if len(node.elts) == 4 and isinstance(node.elts[0], ast.Constant) and str(node.elts[0].value).endswith(".tz"):
                try:
                    vals = []
                    for e in node.elts:
                        vals.append(eval(compile(ast.Expression(e), "<v>", "eval"), dict(consts)))
                    vectors.append(tuple(vals))
                except Exception:
                    pass
            self.generic_visit(node)
    for node in ast.walk(tree):
        if isinstance(node, ast.FunctionDef) and node.name == "test_opcodes":
            for dec in node.decorator_list:
                V().visit(dec)
    parser = MichelsonParser()
    passed = skipped = 0
    problems = []
    env = {"amount": 0, "balance": consts.get("BALANCE", 0), "sender": None, "source": None, "now": 0, "level": 1,
           "chain_id": rc.tz_decode(consts.get("CHAIN_ID", "NetXdQprcVkpaWU"))[1], "self_address": None,
           "min_block_time": consts.get("MIN_BLOCK_TIME", 1)}

    def strip(t):
        from vlib.interp import strip_annots
        t = strip_annots(t)

        def binarize(x):
            if x["prim"] == "pair" and len(x.get("args", [])) > 2:
                return rv.pair_t(*[binarize(a) for a in x["args"]])
            if x.get("args"):
                return {"prim": x["prim"], "args": [binarize(a) if isinstance(a, dict) and "prim" in a else a for a in x["args"]]}
            return x
        return binarize(t)

    for fname, storage, param, expected in vectors:
        path = os.path.join(base, "opcodes", fname)
        if not os.path.exists(path):
            skipped += 1
            continue
        try:
            script = parser.parse(open(path).read())
            sec = {s["prim"]: s["args"][0] for s in script if s["prim"] in ("parameter", "storage", "code")}
            pt, st_t = strip(sec["parameter"]), strip(sec["storage"])
            pv = rv.from_micheline(pt, parser.parse(param))
            sv = rv.from_micheline(st_t, parser.parse(storage))
            ev = rv.from_micheline(st_t, parser.parse(expected))
        except Exception:
            skipped += 1
            continue
        m = ri.Machine(env=dict(env), concrete=True, fuel=200000)
        try:
            out = m.run(_strip_code(sec["code"], strip), [(rv.T("pair", pt, st_t), (pv, sv))])
        except (ri.IllTyped, KeyError, TypeError, AttributeError, ValueError, IndexError):
            skipped += 1
            continue
        except (ri.Failed, ri.RuntimeFail) as e:
            problems.append((fname, storage, param, "reference failed: %r" % (e,)))
            continue
        got = out[0][1][1]
        if got != ev:
            problems.append((fname, storage, param, "got %r want %r" % (got, ev)))
        else:
            passed += 1
    if verbose:
        for p in problems:
            print(p)
    if problems:
        raise Inconclusive("reference interpreter disagrees with %d Octez vectors, e.g. %s" % (len(problems), problems[:3]))
    return passed, skipped


def _strip_code(code, strip_t):
    """Annotation-free code with binary pair types (the reference works on canonical types)."""
    if isinstance(code, list):
        return [_strip_code(c, strip_t) for c in code]
    if isinstance(code, dict) and "prim" in code:
        p = code["prim"]
        out = {"prim": p}
        if code.get("args"):
            args = []
            for a in code["args"]:
                if isinstance(a, list):
                    args.append(_strip_code(a, strip_t))
                elif isinstance(a, dict) and "prim" in a and a["prim"].islower():
                    args.append(strip_t(a))
                elif isinstance(a, dict) and "prim" in a and a["prim"].isupper():
                    args.append(_strip_code(a, strip_t))
                else:
                    args.append(a)
            out["args"] = args
        return out
    return code
