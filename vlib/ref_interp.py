"""Reference Michelson interpreter / typechecker over vlib.ref_values (independent of pytezos).

Stack = Python list of (type, value), top at index 0. With concrete=False values are ABS and only types flow
(static typing: both branches of conditionals are checked and must agree)."""
from __future__ import annotations

import hashlib
from typing import Any, List, Tuple

from vlib import ref_arith as ra
from vlib import ref_micheline as rm
from vlib import ref_values as rv
from vlib.ref_values import T

ABS = "<abstract>"


class Failed(Exception):
    """FAILWITH reached."""

    def __init__(self, t, v):
        super().__init__("FAILWITH")
        self.t, self.v = t, v


class RuntimeFail(Exception):
    """Failure other than FAILWITH (mutez overflow, shift overflow, ...)."""


class IllTyped(Exception):
    pass


class Budget(Exception):
    pass


def keccak256(data: bytes) -> bytes:
    """Keccak-256 with the original (pre-NIST) 0x01 padding."""
    rc = [0x0000000000000001, 0x0000000000008082, 0x800000000000808A, 0x8000000080008000, 0x000000000000808B,
          0x0000000080000001, 0x8000000080008081, 0x8000000000008009, 0x000000000000008A, 0x0000000000000088,
          0x0000000080008009, 0x000000008000000A, 0x000000008000808B, 0x800000000000008B, 0x8000000000008089,
          0x8000000000008003, 0x8000000000008002, 0x8000000000000080, 0x000000000000800A, 0x800000008000000A,
          0x8000000080008081, 0x8000000000008080, 0x0000000080000001, 0x8000000080008008]
    rot = [[0, 36, 3, 41, 18], [1, 44, 10, 45, 2], [62, 6, 43, 15, 61], [28, 55, 25, 21, 56], [27, 20, 39, 8, 14]]
    mask = (1 << 64) - 1

    def rol(x, n):
        n %= 64
        return ((x << n) | (x >> (64 - n))) & mask if n else x

    def f(a):
        for r in range(24):
            c = [a[x][0] ^ a[x][1] ^ a[x][2] ^ a[x][3] ^ a[x][4] for x in range(5)]
            d = [c[(x - 1) % 5] ^ rol(c[(x + 1) % 5], 1) for x in range(5)]
            a = [[a[x][y] ^ d[x] for y in range(5)] for x in range(5)]
            b = [[0] * 5 for _ in range(5)]
            for x in range(5):
                for y in range(5):
                    b[y][(2 * x + 3 * y) % 5] = rol(a[x][y], rot[x][y])
            a = [[b[x][y] ^ ((~b[(x + 1) % 5][y]) & b[(x + 2) % 5][y]) for y in range(5)] for x in range(5)]
            a[0][0] ^= rc[r]
        return a
    rate = 136
    p = bytearray(data)
    p.append(0x01)
    while len(p) % rate:
        p.append(0)
    p[-1] |= 0x80
    a = [[0] * 5 for _ in range(5)]
    for off in range(0, len(p), rate):
        blk = p[off:off + rate]
        for i in range(rate // 8):
            a[i % 5][i // 5] ^= int.from_bytes(blk[8 * i:8 * i + 8], "little")
        a = f(a)
    out = b"".join(a[i % 5][i // 5].to_bytes(8, "little") for i in range(4))
    return out


HASHES = {"BLAKE2B": lambda b: hashlib.blake2b(b, digest_size=32).digest(), "SHA256": lambda b: hashlib.sha256(b).digest(),
          "SHA512": lambda b: hashlib.sha512(b).digest(), "SHA3": lambda b: hashlib.sha3_256(b).digest(),
          "KECCAK": keccak256}
ZERO_CMP = {"EQ": lambda c: c == 0, "NEQ": lambda c: c != 0, "LT": lambda c: c < 0, "GT": lambda c: c > 0,
            "LE": lambda c: c <= 0, "GE": lambda c: c >= 0}


def opt(t):
    return T("option", t)


def strip_t(t):
    out = {"prim": t["prim"]}
    if t.get("args"):
        out["args"] = [strip_t(x) if isinstance(x, dict) and "prim" in x else x for x in t["args"]]
    return out


NO_VALUE = ("<no value>",)


def unpack_value(t, data: bytes):
    """Reference UNPACK: None unless data is 0x05 + strict binary Micheline that denotes a value of type t."""
    if not data or data[0] != 5:
        return NO_VALUE
    try:
        e = rm.decode(data[1:])
        v = rv.from_micheline(t, e)
    except (rm.DecodeError, rv.Malformed):
        return NO_VALUE
    return v if well_formed(t, v) else NO_VALUE


def well_formed(t, v):
    """Semantic constraints beyond shape: nat/mutez ranges, sorted sets/maps, fixed lengths."""
    p, a = t["prim"], rv.targs(t)
    if p in ("nat",):
        return v >= 0
    if p == "mutez":
        return 0 <= v <= ra.MUTEZ_MAX
    if p == "pair":
        return well_formed(a[0], v[0]) and well_formed(a[1], v[1])
    if p == "option":
        return v is None or well_formed(a[0], v[1])
    if p == "or":
        return well_formed(a[0 if v[0] == "Left" else 1], v[1])
    if p == "list":
        return all(well_formed(a[0], x) for x in v)
    if p == "set":
        return all(well_formed(a[0], x) for x in v) and all(rv.compare(a[0], x, y) == -1 for x, y in zip(v, v[1:]))
    if p == "map":
        return all(well_formed(a[0], k) and well_formed(a[1], x) for k, x in v) and \
            all(rv.compare(a[0], x[0], y[0]) == -1 for x, y in zip(v, v[1:]))
    if p == "key_hash":
        return len(v) == 21 and v[0] <= 3
    if p == "chain_id":
        return len(v) == 4
    if p == "signature":
        return len(v) in (64, 96)
    if p == "key":
        return len(v) in (33, 34, 49) and v[0] <= 3
    if p == "address":
        return len(v[0]) == 22
    if p == "string":
        return all(32 <= ord(c) < 127 or c == "\n" for c in v)
    return True


class Machine:
    def __init__(self, env=None, concrete=True, fuel=20000):
        self.env = env or {}
        self.concrete = concrete
        self.fuel = fuel
        self.trace: List[str] = []

    # ---- helpers -----------------------------------------------------------------------------------
    def need(self, st, n, prim):
        if len(st) < n:
            raise IllTyped("%s needs %d items, stack has %d" % (prim, n, len(st)))

    def ty(self, cond, msg):
        if not cond:
            raise IllTyped(msg)

    def val(self, fn, *vs):
        if not self.concrete:
            return ABS
        return fn(*vs)

    def run(self, code, st):
        for ins in code:
            st = self.step(ins, st)
        return st

    def step(self, ins, st):
        self.fuel -= 1
        if self.fuel < 0:
            raise Budget()
        if isinstance(ins, list):
            return self.run(ins, st)
        prim = ins["prim"]
        fn = getattr(self, "i_" + prim, None)
        if fn is None:
            raise IllTyped("unsupported instruction " + prim)
        return fn(ins.get("args", []), list(st))

    def block_types(self, code, st):
        """Result types of a block from the given typed stack (abstract run)."""
        m = Machine(self.env, concrete=False, fuel=self.fuel)
        try:
            out = m.run(code, [(t, ABS) for t, _ in st])
        except Failed:
            return None  # block always fails: types to anything
        return [t for t, _ in out]

    def branches(self, st_a, code_a, st_b, code_b, taken_a):
        """IF-like: in abstract mode check both branches agree; in concrete mode run the taken one but still
        typecheck the other."""
        ta = self.block_types(code_a, st_a)
        tb = self.block_types(code_b, st_b)
        if ta is not None and tb is not None and ta != tb:
            raise IllTyped("branches disagree: %s vs %s" % (ta, tb))
        if not self.concrete:
            res = ta if ta is not None else tb
            if res is None:
                raise Failed(T("unit"), ())  # both branches fail
            return [(t, ABS) for t in res]
        return self.run(code_a, st_a) if taken_a else self.run(code_b, st_b)

    # ---- stack --------------------------------------------------------------------------------------
    def i_DROP(self, a, st):
        n = int(a[0]["int"]) if a else 1
        self.need(st, n, "DROP")
        return st[n:]

    def i_DUP(self, a, st):
        n = int(a[0]["int"]) if a else 1
        self.ty(n >= 1, "DUP 0")
        self.need(st, n, "DUP")
        self.ty(rv.is_duplicable(st[n - 1][0]), "DUP of a non-duplicable value")
        return [st[n - 1]] + st

    def i_SWAP(self, a, st):
        self.need(st, 2, "SWAP")
        return [st[1], st[0]] + st[2:]

    def i_DIG(self, a, st):
        n = int(a[0]["int"])
        self.need(st, n + 1, "DIG")
        return [st[n]] + st[:n] + st[n + 1:]

    def i_DUG(self, a, st):
        n = int(a[0]["int"])
        self.need(st, n + 1, "DUG")
        return st[1:n + 1] + [st[0]] + st[n + 1:]

    def i_PUSH(self, a, st):
        t = a[0]
        self.ty(rv.is_pushable(t), "PUSH of non-pushable type")
        try:
            v = rv.from_micheline(t, a[1])
        except rv.Malformed as e:
            raise IllTyped("PUSH literal: %s" % e)
        self.ty(well_formed(t, v), "PUSH literal not well-formed")
        return [(t, v if self.concrete else ABS)] + st

    def i_DIP(self, a, st):
        n, code = (int(a[0]["int"]), a[1]) if len(a) == 2 else (1, a[0])
        self.need(st, n, "DIP")
        return st[:n] + self.run(code, st[n:])

    def i_UNIT(self, a, st):
        return [(T("unit"), self.val(lambda: ()))] + st

    # ---- control ------------------------------------------------------------------------------------
    def i_FAILWITH(self, a, st):
        self.need(st, 1, "FAILWITH")
        self.ty(rv.is_packable(st[0][0]), "FAILWITH on non-packable")
        raise Failed(st[0][0], st[0][1])

    def i_IF(self, a, st):
        self.need(st, 1, "IF")
        self.ty(st[0][0] == T("bool"), "IF expects bool")
        return self.branches(st[1:], a[0], st[1:], a[1], st[0][1] is True)

    def i_IF_NONE(self, a, st):
        self.need(st, 1, "IF_NONE")
        self.ty(st[0][0]["prim"] == "option", "IF_NONE expects option")
        inner = rv.targs(st[0][0])[0]
        v = st[0][1]
        some = [(inner, v[1] if self.concrete and v is not None else ABS)] + st[1:]
        return self.branches(st[1:], a[0], some, a[1], self.concrete and v is None)

    def i_IF_LEFT(self, a, st):
        self.need(st, 1, "IF_LEFT")
        self.ty(st[0][0]["prim"] == "or", "IF_LEFT expects or")
        lt, rt = rv.targs(st[0][0])
        v = st[0][1]
        is_left = self.concrete and v[0] == "Left"
        left = [(lt, v[1] if self.concrete and is_left else ABS)] + st[1:]
        right = [(rt, v[1] if self.concrete and not is_left else ABS)] + st[1:]
        return self.branches(left, a[0], right, a[1], is_left)

    def i_IF_CONS(self, a, st):
        self.need(st, 1, "IF_CONS")
        self.ty(st[0][0]["prim"] == "list", "IF_CONS expects list")
        et = rv.targs(st[0][0])[0]
        v = st[0][1]
        nonempty = self.concrete and len(v) > 0
        cons = [(et, v[0] if nonempty else ABS), (st[0][0], v[1:] if nonempty else ABS)] + st[1:]
        return self.branches(cons, a[0], st[1:], a[1], nonempty)

    def i_LOOP(self, a, st):
        self.need(st, 1, "LOOP")
        self.ty(st[0][0] == T("bool"), "LOOP expects bool")
        body_t = self.block_types(a[0], st[1:])
        self.ty(body_t is None or body_t == [t for t, _ in st], "LOOP body does not preserve the stack")
        if not self.concrete:
            return st[1:]
        while st[0][1]:
            st = self.run(a[0], st[1:])
            self.fuel -= 1
            if self.fuel < 0:
                raise Budget()
        return st[1:]

    def i_LOOP_LEFT(self, a, st):
        self.need(st, 1, "LOOP_LEFT")
        self.ty(st[0][0]["prim"] == "or", "LOOP_LEFT expects or")
        lt, rt = rv.targs(st[0][0])
        body_t = self.block_types(a[0], [(lt, ABS)] + st[1:])
        self.ty(body_t is None or body_t == [t for t, _ in st], "LOOP_LEFT body type")
        if not self.concrete:
            return [(rt, ABS)] + st[1:]
        while st[0][1][0] == "Left":
            st = self.run(a[0], [(lt, st[0][1][1])] + st[1:])
            self.fuel -= 1
            if self.fuel < 0:
                raise Budget()
        return [(rt, st[0][1][1])] + st[1:]

    def i_ITER(self, a, st):
        self.need(st, 1, "ITER")
        ct = st[0][0]
        p = ct["prim"]
        self.ty(p in ("list", "set", "map"), "ITER expects a collection")
        et = rv.targs(ct)[0] if p != "map" else T("pair", *rv.targs(ct))
        body_t = self.block_types(a[0], [(et, ABS)] + st[1:])
        self.ty(body_t is None or body_t == [t for t, _ in st[1:]], "ITER body type")
        if not self.concrete:
            return st[1:]
        rest = st[1:]
        for x in st[0][1]:
            rest = self.run(a[0], [(et, x)] + rest)
        return rest

    def i_MAP(self, a, st):
        self.need(st, 1, "MAP")
        ct = st[0][0]
        p = ct["prim"]
        self.ty(p in ("list", "map", "option"), "MAP expects list/map/option")
        et = rv.targs(ct)[0] if p != "map" else T("pair", *rv.targs(ct))
        body_t = self.block_types(a[0], [(et, ABS)] + st[1:])
        self.ty(body_t is not None and len(body_t) == len(st) and body_t[1:] == [t for t, _ in st[1:]], "MAP body type")
        nt = body_t[0]
        rt = T("list", nt) if p == "list" else (T("map", rv.targs(ct)[0], nt) if p == "map" else T("option", nt))
        if not self.concrete:
            return [(rt, ABS)] + st[1:]
        rest = st[1:]
        if rt != ct and (st[0][1] is None or len(st[0][1]) == 0):
            self.trace.append("MAP-empty-type-change")  # known finding: pytezos cannot type the result without running the body
        if p == "option":
            if st[0][1] is None:
                return [(rt, None)] + rest
            out = self.run(a[0], [(et, st[0][1][1])] + rest)
            return [(rt, ("Some", out[0][1]))] + out[1:]
        res = []
        for x in st[0][1]:
            out = self.run(a[0], [(et, x)] + rest)
            res.append((x[0], out[0][1]) if p == "map" else out[0][1])
            rest = out[1:]
        return [(rt, res)] + rest

    def i_LAMBDA(self, a, st):
        at, rt, code = a
        body_t = self.block_types(code, [(at, ABS)])
        self.ty(body_t is None or body_t == [rt], "LAMBDA body type %s != [%s]" % (body_t, rt))
        return [(T("lambda", at, rt), {"code": code, "applied": []} if self.concrete else ABS)] + st

    def i_LAMBDA_REC(self, a, st):
        at, rt, code = a
        lt = T("lambda", at, rt)
        body_t = self.block_types(code, [(at, ABS), (lt, ABS)])  # the body sees its argument and the lambda itself
        self.ty(body_t is None or body_t == [rt], "LAMBDA_REC body type %s != [%s]" % (body_t, rt))
        return [(lt, {"code": code, "applied": [], "rec": lt} if self.concrete else ABS)] + st

    def i_CAST(self, a, st):
        self.need(st, 1, "CAST")
        self.ty(strip_t(a[0]) == st[0][0], "CAST to another type")
        return st

    def i_RENAME(self, a, st):
        self.need(st, 1, "RENAME")
        return st

    def i_EXEC(self, a, st):
        self.need(st, 2, "EXEC")
        lt = st[1][0]
        self.ty(lt["prim"] == "lambda" and rv.targs(lt)[0] == st[0][0], "EXEC typing")
        rt = rv.targs(lt)[1]
        if not self.concrete:
            return [(rt, ABS)] + st[2:]
        lam = st[1][1]
        arg, at = st[0][1], st[0][0]
        for (pt, pv) in reversed(lam["applied"]):
            arg, at = (pv, arg), T("pair", pt, at)
        if lam.get("rec"):
            out = self.run(lam["code"], [(at, arg), (lam["rec"], {"code": lam["code"], "applied": [], "rec": lam["rec"]})])
        else:
            out = self.run(lam["code"], [(at, arg)])
        return [(rt, out[0][1])] + st[2:]

    def i_APPLY(self, a, st):
        self.need(st, 2, "APPLY")
        lt = st[1][0]
        self.ty(lt["prim"] == "lambda" and rv.targs(lt)[0]["prim"] == "pair", "APPLY expects lambda (pair a b) c")
        pa, pb = rv.targs(rv.targs(lt)[0])
        self.ty(pa == st[0][0] and rv.is_pushable(pa) and rv.is_packable(pa), "APPLY argument type")
        nt = T("lambda", pb, rv.targs(lt)[1])
        if not self.concrete:
            return [(nt, ABS)] + st[2:]
        lam = st[1][1]
        return [(nt, dict(lam, applied=lam["applied"] + [(pa, st[0][1])]))] + st[2:]

    # ---- data ---------------------------------------------------------------------------------------
    def i_PAIR(self, a, st):
        n = int(a[0]["int"]) if a else 2
        self.ty(n >= 2, "PAIR n<2")
        self.need(st, n, "PAIR")
        ts = [t for t, _ in st[:n]]
        t = rv.pair_t(*ts)
        v = ABS
        if self.concrete:
            v = st[n - 1][1]
            for _, x in reversed(st[:n - 1]):
                v = (x, v)
        return [(t, v)] + st[n:]

    def i_UNPAIR(self, a, st):
        n = int(a[0]["int"]) if a else 2
        self.ty(n >= 2, "UNPAIR n<2")
        self.need(st, 1, "UNPAIR")
        t, v = st[0]
        out = []
        for i in range(n - 1):
            self.ty(t["prim"] == "pair", "UNPAIR on non-pair")
            out.append((rv.targs(t)[0], v[0] if self.concrete else ABS))
            t, v = rv.targs(t)[1], (v[1] if self.concrete else ABS)
        out.append((t, v))
        return out + st[1:]

    def i_CAR(self, a, st):
        self.need(st, 1, "CAR")
        self.ty(st[0][0]["prim"] == "pair", "CAR on non-pair")
        return [(rv.targs(st[0][0])[0], self.val(lambda: st[0][1][0]))] + st[1:]

    def i_CDR(self, a, st):
        self.need(st, 1, "CDR")
        self.ty(st[0][0]["prim"] == "pair", "CDR on non-pair")
        return [(rv.targs(st[0][0])[1], self.val(lambda: st[0][1][1]))] + st[1:]

    def _comb_get(self, t, v, k):
        while k >= 2:
            self.ty(t["prim"] == "pair", "GET n out of comb")
            t, v = rv.targs(t)[1], (v[1] if self.concrete else ABS)
            k -= 2
        if k == 1:
            self.ty(t["prim"] == "pair", "GET n out of comb")
            return rv.targs(t)[0], (v[0] if self.concrete else ABS)
        return t, v

    def _comb_update(self, t, v, k, nt, nv):
        if k == 0:
            return nt, nv
        self.ty(t["prim"] == "pair", "UPDATE n out of comb")
        l, r = rv.targs(t)
        if k == 1:
            return T("pair", nt, r), ((nv, v[1]) if self.concrete else ABS)
        rt, rvv = self._comb_update(r, v[1] if self.concrete else ABS, k - 2, nt, nv)
        return T("pair", l, rt), ((v[0], rvv) if self.concrete else ABS)

    def i_GET(self, a, st):
        if a:
            self.need(st, 1, "GET n")
            t, v = self._comb_get(st[0][0], st[0][1], int(a[0]["int"]))
            return [(t, v)] + st[1:]
        self.need(st, 2, "GET")
        ct = st[1][0]
        self.ty(ct["prim"] in ("map",) and rv.targs(ct)[0] == st[0][0], "GET typing")
        vt = rv.targs(ct)[1]
        self.ty(rv.is_duplicable(vt), "GET on non-duplicable values")

        def f():
            for k, x in st[1][1]:
                if rv.compare(st[0][0], k, st[0][1]) == 0:
                    return ("Some", x)
            return None
        return [(opt(vt), self.val(f))] + st[2:]

    def i_UPDATE(self, a, st):
        if a:
            self.need(st, 2, "UPDATE n")
            t, v = self._comb_update(st[1][0], st[1][1], int(a[0]["int"]), st[0][0], st[0][1])
            return [(t, v)] + st[2:]
        self.need(st, 3, "UPDATE")
        kt, ct = st[0][0], st[2][0]
        if ct["prim"] == "set":
            self.ty(rv.targs(ct)[0] == kt and st[1][0] == T("bool"), "UPDATE set typing")

            def f():
                items = [x for x in st[2][1] if rv.compare(kt, x, st[0][1]) != 0]
                if st[1][1]:
                    items = rv.sort_values(kt, items + [st[0][1]])
                return items
            return [(ct, self.val(f))] + st[3:]
        self.ty(ct["prim"] == "map" and rv.targs(ct)[0] == kt and st[1][0] == opt(rv.targs(ct)[1]), "UPDATE map typing")
        return [(ct, self.val(lambda: self._map_update(kt, st[2][1], st[0][1], st[1][1])))] + st[3:]

    def _map_update(self, kt, m, k, ov):
        items = [(x, y) for x, y in m if rv.compare(kt, x, k) != 0]
        if ov is not None:
            items.append((k, ov[1]))
            keys = rv.sort_values(kt, [x for x, _ in items])
            items = [(x, next(y for z, y in items if rv.compare(kt, z, x) == 0)) for x in keys]
        return items

    def i_GET_AND_UPDATE(self, a, st):
        self.need(st, 3, "GET_AND_UPDATE")
        kt, ct = st[0][0], st[2][0]
        self.ty(ct["prim"] == "map" and rv.targs(ct)[0] == kt and st[1][0] == opt(rv.targs(ct)[1]), "GET_AND_UPDATE typing")

        def old():
            for k, x in st[2][1]:
                if rv.compare(kt, k, st[0][1]) == 0:
                    return ("Some", x)
            return None
        return [(st[1][0], self.val(old)), (ct, self.val(lambda: self._map_update(kt, st[2][1], st[0][1], st[1][1])))] + st[3:]

    def i_MEM(self, a, st):
        self.need(st, 2, "MEM")
        ct = st[1][0]
        self.ty(ct["prim"] in ("set", "map") and rv.targs(ct)[0] == st[0][0], "MEM typing")

        def f():
            ks = st[1][1] if ct["prim"] == "set" else [k for k, _ in st[1][1]]
            return any(rv.compare(st[0][0], k, st[0][1]) == 0 for k in ks)
        return [(T("bool"), self.val(f))] + st[2:]

    def i_SIZE(self, a, st):
        self.need(st, 1, "SIZE")
        self.ty(st[0][0]["prim"] in ("list", "set", "map", "string", "bytes"), "SIZE typing")
        return [(T("nat"), self.val(lambda: len(st[0][1])))] + st[1:]

    def i_EMPTY_SET(self, a, st):
        self.ty(rv.is_comparable(a[0]), "EMPTY_SET key")
        return [(T("set", a[0]), self.val(list))] + st

    def i_EMPTY_MAP(self, a, st):
        self.ty(rv.is_comparable(a[0]), "EMPTY_MAP key")
        return [(T("map", a[0], a[1]), self.val(list))] + st

    def i_NIL(self, a, st):
        return [(T("list", a[0]), self.val(list))] + st

    def i_CONS(self, a, st):
        self.need(st, 2, "CONS")
        self.ty(st[1][0] == T("list", st[0][0]), "CONS typing")
        return [(st[1][0], self.val(lambda: [st[0][1]] + st[1][1]))] + st[2:]

    def i_SOME(self, a, st):
        self.need(st, 1, "SOME")
        return [(opt(st[0][0]), self.val(lambda: ("Some", st[0][1])))] + st[1:]

    def i_NONE(self, a, st):
        return [(opt(a[0]), self.val(lambda: None))] + st

    def i_LEFT(self, a, st):
        self.need(st, 1, "LEFT")
        return [(T("or", st[0][0], a[0]), self.val(lambda: ("Left", st[0][1])))] + st[1:]

    def i_RIGHT(self, a, st):
        self.need(st, 1, "RIGHT")
        return [(T("or", a[0], st[0][0]), self.val(lambda: ("Right", st[0][1])))] + st[1:]

    # ---- strings / bytes ----------------------------------------------------------------------------
    def i_CONCAT(self, a, st):
        self.need(st, 1, "CONCAT")
        t = st[0][0]
        if t["prim"] == "list":
            et = rv.targs(t)[0]
            self.ty(et["prim"] in ("string", "bytes"), "CONCAT list typing")
            empty = "" if et["prim"] == "string" else b""
            return [(et, self.val(lambda: empty.join(st[0][1])))] + st[1:]
        self.need(st, 2, "CONCAT")
        self.ty(t["prim"] in ("string", "bytes") and st[1][0] == t, "CONCAT typing")
        return [(t, self.val(lambda: st[0][1] + st[1][1]))] + st[2:]

    def i_SLICE(self, a, st):
        self.need(st, 3, "SLICE")
        self.ty(st[0][0] == T("nat") and st[1][0] == T("nat") and st[2][0]["prim"] in ("string", "bytes"), "SLICE typing")

        def f():
            off, ln, s = st[0][1], st[1][1], st[2][1]
            if off < len(s) and off + ln <= len(s):
                return ("Some", s[off:off + ln])
            return None
        return [(opt(st[2][0]), self.val(f))] + st[3:]

    def i_PACK(self, a, st):
        self.need(st, 1, "PACK")
        self.ty(rv.is_packable(st[0][0]) and not rv.contains_type(st[0][0], {"lambda"}), "PACK typing")
        return [(T("bytes"), self.val(lambda: rv.pack(st[0][0], st[0][1])))] + st[1:]

    def i_UNPACK(self, a, st):
        self.need(st, 1, "UNPACK")
        self.ty(st[0][0] == T("bytes") and rv.is_packable(a[0]), "UNPACK typing")

        def f():
            v = unpack_value(a[0], st[0][1])
            return None if v is NO_VALUE else ("Some", v)
        return [(opt(a[0]), self.val(f))] + st[1:]

    # ---- compare / arithmetic / logic ---------------------------------------------------------------
    def i_COMPARE(self, a, st):
        self.need(st, 2, "COMPARE")
        self.ty(st[0][0] == st[1][0] and rv.is_comparable(st[0][0]), "COMPARE typing")
        return [(T("int"), self.val(lambda: rv.compare(st[0][0], st[0][1], st[1][1])))] + st[2:]

    def _arith(self, op, n, st):
        self.need(st, n, op)
        tys = tuple(t["prim"] for t, _ in st[:n])
        table = ra.UNARY if n == 1 else ra.BINARY
        key = tys[0] if n == 1 else tys
        self.ty(op in table and key in table[op] and all(not rv.targs(t) for t, _ in st[:n]), "%s on %s" % (op, tys))
        rt = ra._ty(table[op][key])
        if not self.concrete:
            return [(rt, ABS)] + st[n:]
        res = ra.apply(op, tys, tuple(v for _, v in st[:n]))
        if res[0] == "fail":
            raise RuntimeFail("%s: %s" % (op, res[1]))
        return [(res[1], res[2])] + st[n:]


def _mk_arith(name, n):
    def f(self, a, st):
        return self._arith(name, n, st)
    return f


for _op in ra.BINARY:
    setattr(Machine, "i_" + _op, _mk_arith(_op, 2))
for _op in ra.UNARY:
    setattr(Machine, "i_" + _op, _mk_arith(_op, 1))


def _mk_zero_cmp(name):
    def f(self, a, st):
        self.need(st, 1, name)
        self.ty(st[0][0] == T("int"), name + " expects int")
        return [(T("bool"), self.val(lambda: ZERO_CMP[name](st[0][1])))] + st[1:]
    return f


for _op in ZERO_CMP:
    setattr(Machine, "i_" + _op, _mk_zero_cmp(_op))


def _mk_hash(name):
    def f(self, a, st):
        self.need(st, 1, name)
        self.ty(st[0][0] == T("bytes"), name + " expects bytes")
        return [(T("bytes"), self.val(lambda: HASHES[name](st[0][1])))] + st[1:]
    return f


for _op in HASHES:
    setattr(Machine, "i_" + _op, _mk_hash(_op))

ENV_INSTR = {"AMOUNT": ("mutez", "amount"), "BALANCE": ("mutez", "balance"), "SENDER": ("address", "sender"),
             "SOURCE": ("address", "source"), "NOW": ("timestamp", "now"), "LEVEL": ("nat", "level"),
             "CHAIN_ID": ("chain_id", "chain_id"), "SELF_ADDRESS": ("address", "self_address"),
             "MIN_BLOCK_TIME": ("nat", "min_block_time")}


def _mk_env(name):
    t, key = ENV_INSTR[name]

    def f(self, a, st):
        return [(T(t), self.val(lambda: self.env[key]))] + st
    return f


for _op in ENV_INSTR:
    setattr(Machine, "i_" + _op, _mk_env(_op))


# ---- tickets ----------------------------------------------------------------------------------------
def _ticket_t(ct):
    return T("ticket", ct)


def i_TICKET(self, a, st):
    self.need(st, 2, "TICKET")
    self.ty(rv.is_comparable(st[0][0]) and st[1][0] == T("nat"), "TICKET typing")
    tt = _ticket_t(st[0][0])

    def f():
        if st[1][1] == 0:
            return None
        return ("Some", ("ticket", self.env["self_address"], st[0][1], st[1][1]))
    return [(opt(tt), self.val(f))] + st[2:]


def i_READ_TICKET(self, a, st):
    self.need(st, 1, "READ_TICKET")
    self.ty(st[0][0]["prim"] == "ticket", "READ_TICKET typing")
    ct = rv.targs(st[0][0])[0]
    pt = rv.pair_t(T("address"), ct, T("nat"))
    return [(pt, self.val(lambda: (st[0][1][1], (st[0][1][2], st[0][1][3])))), st[0]] + st[1:]


def i_SPLIT_TICKET(self, a, st):
    self.need(st, 2, "SPLIT_TICKET")
    self.ty(st[0][0]["prim"] == "ticket" and st[1][0] == T("pair", T("nat"), T("nat")), "SPLIT_TICKET typing")
    tt = st[0][0]

    def f():
        _, tk, c, amt = st[0][1]
        x, y = st[1][1]
        if x + y != amt or x == 0 or y == 0:
            return None
        return ("Some", (("ticket", tk, c, x), ("ticket", tk, c, y)))
    return [(opt(T("pair", tt, tt)), self.val(f))] + st[2:]


def i_JOIN_TICKETS(self, a, st):
    self.need(st, 1, "JOIN_TICKETS")
    t = st[0][0]
    self.ty(t["prim"] == "pair" and rv.targs(t)[0] == rv.targs(t)[1] and rv.targs(t)[0]["prim"] == "ticket", "JOIN_TICKETS typing")
    tt = rv.targs(t)[0]
    ct = rv.targs(tt)[0]

    def f():
        (_, k1, c1, a1), (_, k2, c2, a2) = st[0][1]
        if k1 != k2 or rv.compare(ct, c1, c2) != 0:
            return None
        return ("Some", ("ticket", k1, c1, a1 + a2))
    return [(opt(tt), self.val(f))] + st[1:]


for _f in (i_TICKET, i_READ_TICKET, i_SPLIT_TICKET, i_JOIN_TICKETS):
    setattr(Machine, _f.__name__, _f)


def tickets_in(t, v, acc=None):
    """All ticket values (ticketer, content-repr, amount) inside a concrete value."""
    acc = [] if acc is None else acc
    p, a = t["prim"], rv.targs(t)
    if p == "ticket":
        acc.append((v[1], repr(v[2]), v[3]))
    elif p == "pair":
        tickets_in(a[0], v[0], acc)
        tickets_in(a[1], v[1], acc)
    elif p == "option" and v is not None:
        tickets_in(a[0], v[1], acc)
    elif p == "or":
        tickets_in(a[0 if v[0] == "Left" else 1], v[1], acc)
    elif p == "list":
        for x in v:
            tickets_in(a[0], x, acc)
    elif p == "map":
        for _, x in v:
            tickets_in(a[1], x, acc)
    return acc


def value_to_micheline(t, v, mode="optimized"):
    """ref value (incl. tickets) -> Micheline as pytezos would render it."""
    p, a = t["prim"], rv.targs(t)
    if p == "ticket":
        pt = rv.pair_t(T("address"), a[0], T("nat"))
        return value_to_micheline(pt, (v[1], (v[2], v[3])), mode)
    if rv.contains_type(t, {"ticket"}):
        if p == "pair":
            if mode == "optimized":
                ts, vs = rv.comb_types(t), rv.comb_values(t, v)
                items = [value_to_micheline(x, y, mode) for x, y in zip(ts, vs)]
                if len(items) >= 4:
                    return items
                if len(items) == 3:
                    return {"prim": "Pair", "args": [items[0], {"prim": "Pair", "args": items[1:]}]}
                return {"prim": "Pair", "args": items}
            return {"prim": "Pair", "args": [value_to_micheline(a[0], v[0], mode), value_to_micheline(a[1], v[1], mode)]}
        if p == "option":
            return {"prim": "None"} if v is None else {"prim": "Some", "args": [value_to_micheline(a[0], v[1], mode)]}
        if p == "or":
            return {"prim": v[0], "args": [value_to_micheline(a[0 if v[0] == "Left" else 1], v[1], mode)]}
        if p == "list":
            return [value_to_micheline(a[0], x, mode) for x in v]
        if p == "map":
            return [{"prim": "Elt", "args": [rv.to_micheline(a[0], k, mode), value_to_micheline(a[1], x, mode)]} for k, x in v]
    return rv.to_micheline(t, v, mode)
