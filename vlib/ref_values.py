"""Reference value model for Michelson data (independent of pytezos).

Types are Micheline JSON without annotations, pairs always binary (right combs nested).
Values are type-directed Python objects:
  int nat mutez timestamp -> int            string -> str           bytes -> bytes         bool -> bool
  unit -> ()                                option -> None | ("Some", v)                   or -> ("Left"|"Right", v)
  pair -> (a, b)                            list/set -> [v...]      map/big_map -> [(k, v)...] (sets/maps sorted)
  key_hash -> 21 bytes (tag+hash)           address/contract -> (22 bytes, entrypoint-or-"")
  key -> bytes (tag+point)                  signature -> raw bytes  chain_id -> 4 bytes
  bls12_381_g1/g2 -> bytes, bls12_381_fr -> int in [0, r)          lambda -> Micheline code (list)
"""
from __future__ import annotations

from typing import Any

from vlib import ref_crypto as rc
from vlib import ref_micheline as rm

SIMPLE = ["unit", "never", "bool", "int", "nat", "string", "chain_id", "bytes", "mutez", "key_hash", "key", "signature",
          "timestamp", "address"]
NON_COMPARABLE = {"bls12_381_fr", "bls12_381_g1", "bls12_381_g2", "sapling_state", "sapling_transaction", "big_map",
                  "contract", "lambda", "list", "map", "set", "operation", "ticket"}
PKH_NAME = {0: "tz1", 1: "tz2", 2: "tz3", 3: "tz4"}
PKH_TAG = {v: k for k, v in PKH_NAME.items()}
PK_NAME = {0: ("edpk", 32), 1: ("sppk", 33), 2: ("p2pk", 33), 3: ("BLpk", 48)}
PK_TAG = {v[0]: k for k, v in PK_NAME.items()}
ADDR_NAME = {1: "KT1", 2: "txr1", 3: "sr1"}
ADDR_TAG = {v: k for k, v in ADDR_NAME.items()}
BLS_R = rc.BLS_R


def T(prim, *args):
    return {"prim": prim, "args": list(args)} if args else {"prim": prim}


def pair_t(*ts):
    if len(ts) == 2:
        return T("pair", ts[0], ts[1])
    return T("pair", ts[0], pair_t(*ts[1:]))


def targs(t):
    return t.get("args", [])


def is_comparable(t):
    if t["prim"] in NON_COMPARABLE:
        return False
    return all(is_comparable(a) for a in targs(t))


def _no(t, banned, lambda_ok=True):
    if t["prim"] in banned:
        return False
    if t["prim"] == "lambda":
        return lambda_ok
    return all(_no(a, banned, lambda_ok) for a in targs(t))


def is_packable(t):
    return _no(t, {"big_map", "operation", "sapling_state", "ticket"})


def is_pushable(t):
    return _no(t, {"big_map", "operation", "sapling_state", "ticket", "contract"})


def is_storable(t):
    return _no(t, {"contract", "operation"})


def is_passable(t):
    return _no(t, {"operation"})


def is_duplicable(t):
    return _no(t, {"ticket"})


def comb_types(t):
    """[t1, ..., tn] for a right comb pair t1 (pair t2 (... tn))."""
    out = []
    while t["prim"] == "pair":
        out.append(targs(t)[0])
        t = targs(t)[1]
    out.append(t)
    return out


def comb_values(t, v):
    out = []
    while t["prim"] == "pair":
        out.append(v[0])
        v = v[1]
        t = targs(t)[1]
    out.append(v)
    return out


# ---- readable <-> internal for domain types -------------------------------------------------------
def pkh_str(b21: bytes) -> str:
    return rc.tz_encode(b21[1:], PKH_NAME[b21[0]])


def pkh_bytes(s: str) -> bytes:
    kind, h = rc.tz_decode(s)
    return bytes([PKH_TAG[kind]]) + h


def addr_str(a) -> str:
    b, ep = a
    if b[0] == 0:
        s = pkh_str(b[1:])
    else:
        s = rc.tz_encode(b[1:21], ADDR_NAME[b[0]])
    return s + ("%" + ep if ep else "")


def addr_val(s: str):
    base, _, ep = s.partition("%")
    kind, h = rc.tz_decode(base)
    if kind in PKH_TAG:
        b = b"\x00" + bytes([PKH_TAG[kind]]) + h
    else:
        b = bytes([ADDR_TAG[kind]]) + h + b"\x00"
    return (b, "" if ep == "default" else ep)


def key_str(b: bytes) -> str:
    return rc.tz_encode(b[1:], PK_NAME[b[0]][0])


def key_bytes(s: str) -> bytes:
    kind, h = rc.tz_decode(s)
    return bytes([PK_TAG[kind]]) + h


def sig_str(b: bytes, prefix=None) -> str:
    return rc.tz_encode(b, prefix or ("BLsig" if len(b) == 96 else "sig"))


def sig_bytes(s: str) -> bytes:
    return rc.tz_decode(s)[1]


# ---- strict RFC 3339 (UTC 'Z', 4-digit year) -----------------------------------------------------
def _days_from_civil(y, m, d):
    y -= m <= 2
    era = (y if y >= 0 else y - 399) // 400
    yoe = y - era * 400
    doy = (153 * (m + (-3 if m > 2 else 9)) + 2) // 5 + d - 1
    doe = yoe * 365 + yoe // 4 - yoe // 100 + doy
    return era * 146097 + doe - 719468


def _civil_from_days(z):
    z += 719468
    era = (z if z >= 0 else z - 146096) // 146097
    doe = z - era * 146097
    yoe = (doe - doe // 1460 + doe // 36524 - doe // 146096) // 365
    y = yoe + era * 400
    doy = doe - (365 * yoe + yoe // 4 - yoe // 100)
    mp = (5 * doy + 2) // 153
    d = doy - (153 * mp + 2) // 5 + 1
    m = mp + (3 if mp < 10 else -9)
    return y + (m <= 2), m, d


def rfc3339(ts: int):
    """String form for years 0..9999, else None."""
    days, rem = divmod(ts, 86400)
    y, m, d = _civil_from_days(days)
    if not 0 <= y <= 9999:
        return None
    return "%04d-%02d-%02dT%02d:%02d:%02dZ" % (y, m, d, rem // 3600, rem % 3600 // 60, rem % 60)


def parse_rfc3339(s: str):
    import re
    m = re.fullmatch(r"(\d{4})-(\d\d)-(\d\d)[Tt ](\d\d):(\d\d):(\d\d)(?:\.\d+)?(Z|z|[+-]\d\d:\d\d)", s)
    if not m:
        return None
    y, mo, d, hh, mi, ss = (int(x) for x in m.groups()[:6])
    if not (1 <= mo <= 12 and 1 <= d <= 31 and hh < 24 and mi < 60 and ss < 61):
        return None
    off = 0
    if m.group(7) not in "Zz":
        sign = 1 if m.group(7)[0] == "+" else -1
        off = sign * (int(m.group(7)[1:3]) * 3600 + int(m.group(7)[4:6]) * 60)
    return _days_from_civil(y, mo, d) * 86400 + hh * 3600 + mi * 60 + ss - off


# ---- internal -> Micheline ------------------------------------------------------------------------
def to_micheline(t, v, mode="readable") -> Any:
    """mode: 'readable' (strings for domain types, nested binary Pairs), 'optimized' (Tezos PACK form),
    'legacy' (optimized leaves, nested binary pairs: used for big_map key hashing)."""
    p = t["prim"]
    opt = mode != "readable"
    if p in ("int", "nat", "mutez"):
        return {"int": str(v)}
    if p == "timestamp":
        if opt:
            return {"int": str(v)}
        s = rfc3339(v)
        return {"string": s} if s is not None and v >= -62135596800 + 31536000 * 1000 else {"int": str(v)}
    if p == "string":
        return {"string": v}
    if p == "bytes":
        return {"bytes": v.hex()}
    if p == "bool":
        return {"prim": "True" if v else "False"}
    if p == "unit":
        return {"prim": "Unit"}
    if p == "option":
        return {"prim": "None"} if v is None else {"prim": "Some", "args": [to_micheline(targs(t)[0], v[1], mode)]}
    if p == "or":
        i = 0 if v[0] == "Left" else 1
        return {"prim": v[0], "args": [to_micheline(targs(t)[i], v[1], mode)]}
    if p == "pair":
        if mode == "optimized":
            ts, vs = comb_types(t), comb_values(t, v)
            items = [to_micheline(a, b, mode) for a, b in zip(ts, vs)]
            if len(items) >= 4:
                return items
            if len(items) == 3:
                return {"prim": "Pair", "args": [items[0], {"prim": "Pair", "args": items[1:]}]}
            return {"prim": "Pair", "args": items}
        return {"prim": "Pair", "args": [to_micheline(targs(t)[0], v[0], mode), to_micheline(targs(t)[1], v[1], mode)]}
    if p in ("list", "set"):
        return [to_micheline(targs(t)[0], x, mode) for x in v]
    if p == "big_map" and isinstance(v, tuple) and v and v[0] == "ptr":
        return {"int": str(v[1])}  # an on-chain big_map referred to by its identifier
    if p in ("map", "big_map"):
        return [{"prim": "Elt", "args": [to_micheline(targs(t)[0], k, mode), to_micheline(targs(t)[1], x, mode)]}
                for k, x in v]
    if p == "key_hash":
        return {"bytes": v.hex()} if opt else {"string": pkh_str(v)}
    if p in ("address", "contract", "tx_rollup_l2_address"):
        return {"bytes": (v[0] + v[1].encode()).hex()} if opt else {"string": addr_str(v)}
    if p == "key":
        return {"bytes": v.hex()} if opt else {"string": key_str(v)}
    if p == "signature":
        return {"bytes": v.hex()} if opt else {"string": sig_str(v)}
    if p == "chain_id":
        return {"bytes": v.hex()} if opt else {"string": rc.tz_encode(v, "Net")}
    if p in ("bls12_381_g1", "bls12_381_g2"):
        return {"bytes": v.hex()}
    if p == "bls12_381_fr":
        return {"bytes": v.to_bytes(32, "little").hex()}
    if p == "lambda":
        return v
    raise ValueError("to_micheline: unsupported type %s" % p)


class Malformed(Exception):
    pass


def _prim(e, name, n):
    if not (isinstance(e, dict) and e.get("prim") == name and len(e.get("args", [])) == n):
        raise Malformed("expected %s/%d, got %r" % (name, n, e))
    return e.get("args", [])


def from_micheline(t, e) -> Any:
    """Canonical parser accepting every spelling Tezos accepts for a value of type t."""
    p = t["prim"]
    try:
        if p in ("int", "nat", "mutez"):
            v = int(e["int"])
            if p != "int" and v < 0:
                raise Malformed("negative %s" % p)
            return v
        if p == "timestamp":
            if "int" in e:
                return int(e["int"])
            v = parse_rfc3339(e["string"])
            if v is None:
                if e["string"].lstrip("-").isdigit():
                    return int(e["string"])
                raise Malformed("bad timestamp %r" % e["string"])
            return v
        if p == "string":
            return e["string"]
        if p == "bytes":
            return bytes.fromhex(e["bytes"])
        if p == "bool":
            if e.get("prim") in ("True", "False") and not e.get("args"):
                return e["prim"] == "True"
            raise Malformed("bool %r" % e)
        if p == "unit":
            _prim(e, "Unit", 0)
            return ()
        if p == "option":
            if isinstance(e, dict) and e.get("prim") == "None" and not e.get("args"):
                return None
            return ("Some", from_micheline(targs(t)[0], _prim(e, "Some", 1)[0]))
        if p == "or":
            if isinstance(e, dict) and e.get("prim") == "Left":
                return ("Left", from_micheline(targs(t)[0], _prim(e, "Left", 1)[0]))
            return ("Right", from_micheline(targs(t)[1], _prim(e, "Right", 1)[0]))
        if p == "pair":
            if isinstance(e, list):
                args = e
            else:
                if not (isinstance(e, dict) and e.get("prim") == "Pair"):
                    raise Malformed("pair %r" % e)
                args = e.get("args", [])
            if len(args) < 2:
                raise Malformed("pair arity %r" % e)
            a = from_micheline(targs(t)[0], args[0])
            if len(args) == 2:
                return (a, from_micheline(targs(t)[1], args[1]))
            return (a, from_micheline(targs(t)[1], {"prim": "Pair", "args": args[1:]}))
        if p in ("list", "set"):
            if not isinstance(e, list):
                raise Malformed("seq %r" % e)
            return [from_micheline(targs(t)[0], x) for x in e]
        if p == "big_map" and isinstance(e, dict) and "int" in e:
            return ("ptr", int(e["int"]))
        if p in ("map", "big_map"):
            if not isinstance(e, list):
                raise Malformed("map %r" % e)
            out = []
            for x in e:
                a = _prim(x, "Elt", 2)
                out.append((from_micheline(targs(t)[0], a[0]), from_micheline(targs(t)[1], a[1])))
            return out
        if p == "key_hash":
            if "bytes" in e:
                b = bytes.fromhex(e["bytes"])
                if len(b) != 21 or b[0] > 3:
                    raise Malformed("key_hash bytes")
                return b
            return pkh_bytes(e["string"])
        if p in ("address", "contract", "tx_rollup_l2_address"):
            if "bytes" in e:
                b = bytes.fromhex(e["bytes"])
                if len(b) < 22:
                    raise Malformed("address bytes")
                ep = b[22:].decode()
                return (b[:22], "" if ep == "default" else ep)
            return addr_val(e["string"])
        if p == "key":
            return bytes.fromhex(e["bytes"]) if "bytes" in e else key_bytes(e["string"])
        if p == "signature":
            return bytes.fromhex(e["bytes"]) if "bytes" in e else sig_bytes(e["string"])
        if p == "chain_id":
            return bytes.fromhex(e["bytes"]) if "bytes" in e else rc.tz_decode(e["string"])[1]
        if p in ("bls12_381_g1", "bls12_381_g2"):
            return bytes.fromhex(e["bytes"])
        if p == "bls12_381_fr":
            if "int" in e:
                return int(e["int"]) % BLS_R
            return int.from_bytes(bytes.fromhex(e["bytes"]), "little") % BLS_R
        if p == "lambda":
            return rm.normalize(e)
    except Malformed:
        raise
    except Exception as ex:
        raise Malformed("%s: %r (%r)" % (p, e, ex))
    raise Malformed("unsupported type %s" % p)


def pack(t, v, legacy=False) -> bytes:
    return b"\x05" + rm.encode(to_micheline(t, v, "legacy" if legacy else "optimized"))


# ---- total order -----------------------------------------------------------------------------------
UNCONSTRAINED = object()


def _cmp(a, b):
    return (a > b) - (a < b)


def compare(t, a, b):
    """-1/0/1, or UNCONSTRAINED where the reference deliberately takes no position."""
    p = t["prim"]
    if p in ("int", "nat", "mutez", "timestamp"):
        return _cmp(a, b)
    if p == "string":
        return _cmp(a.encode(), b.encode())
    if p in ("bytes", "chain_id", "key_hash"):
        return _cmp(a, b)
    if p == "signature":
        if len(a) != len(b):
            return UNCONSTRAINED
        return _cmp(a, b)
    if p == "bool":
        return _cmp(a, b)
    if p in ("unit", "never"):
        return 0
    if p == "option":
        if a is None or b is None:
            return _cmp(a is not None, b is not None)
        return compare(targs(t)[0], a[1], b[1])
    if p == "or":
        if a[0] != b[0]:
            return -1 if a[0] == "Left" else 1
        return compare(targs(t)[0 if a[0] == "Left" else 1], a[1], b[1])
    if p == "pair":
        c = compare(targs(t)[0], a[0], b[0])
        if c is UNCONSTRAINED or c != 0:
            return c
        return compare(targs(t)[1], a[1], b[1])
    if p == "key":
        if a[0] != b[0]:
            return _cmp(a[0], b[0])
        if a[0] == 2 and a[1] != b[1]:  # P-256 keys with different parity byte
            return UNCONSTRAINED
        return _cmp(a, b)
    if p == "address":
        c = _cmp(a[0], b[0])
        if c != 0:
            return c
        # Entrypoint_repr.default is the string "default" and Entrypoint.compare is a string comparison, so a destination
        # without entrypoint sorts as if it were written %default (KT1X%approve < KT1X < KT1X%mint)
        ea, eb = a[1] or "default", b[1] or "default"
        return _cmp(ea.encode(), eb.encode())
    raise ValueError("compare: %s is not comparable" % p)


def sort_values(t, vs):
    """Sort + de-duplicate by the reference order (UNCONSTRAINED pairs must not be generated into one set)."""
    import functools

    def c(a, b):
        r = compare(t, a, b)
        return 0 if r is UNCONSTRAINED else r
    out = []
    for v in sorted(vs, key=functools.cmp_to_key(c)):
        if not out or c(out[-1], v) != 0:
            out.append(v)
    return out


def type_depth(t):
    return 1 + max([type_depth(a) for a in targs(t)], default=0)


def contains_type(t, prims):
    return t["prim"] in prims or any(contains_type(a, prims) for a in targs(t))
