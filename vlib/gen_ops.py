"""Hypothesis strategies for operation contents / groups (C06, C23, C24, C25)."""
from hypothesis import strategies as st

from vlib import gen_micheline as gm
from vlib import ref_crypto as rc
from vlib import ref_ops

PKH_KINDS = ["tz1", "tz2", "tz3", "tz4"]


def hash20():
    """20-byte hashes with special first/last bytes common."""
    def fix(b, mode):
        b = bytearray(b)
        if mode == 1:
            b[0] = 0
        elif mode == 2:
            b[0] = b[1] = 0
        elif mode == 3:
            b[-1] = 0
        elif mode == 4:
            b[0] = mode_first[len(b) % 4]
        return bytes(b)
    mode_first = [0, 1, 2, 3]
    return st.builds(fix, st.binary(min_size=20, max_size=20), st.integers(0, 8))


def pkh(kinds=PKH_KINDS):
    return st.builds(lambda k, h: rc.tz_encode(h, k), st.sampled_from(kinds), hash20())


def contract_addr(kinds=("tz1", "tz2", "tz3", "tz4", "KT1", "sr1")):
    return st.builds(lambda k, h: rc.tz_encode(h, k), st.sampled_from(list(kinds)), hash20())


def nat_field():
    return st.one_of(st.sampled_from([0, 1, 127, 128, 2 ** 14 - 1, 2 ** 14, 2 ** 14 + 1, 2 ** 63 - 1, 2 ** 63, 2 ** 64,
                                      2 ** 64 + 7]),
                     st.integers(0, 2 ** 20), st.integers(0, 2 ** 70), st.integers(2 ** 64, 2 ** 200))


def small_nat():
    return st.one_of(st.integers(0, 300), st.integers(0, 2 ** 20))


def entrypoint_name():
    named = st.text(alphabet="abcdefghijklmnopqrstuvwxyzABCXYZ0123456789_.", min_size=1, max_size=31)
    return st.one_of(st.sampled_from(ref_ops.ENTRYPOINTS), st.sampled_from(ref_ops.ENTRYPOINTS), named,
                     st.sampled_from(["a" * 31, "mint", "Default", "defaults", "stak", "do_", "deadbeef"]))


def micheline(max_leaves=8):
    return gm.trees(max_leaves, ann=gm.annots_simple())


def public_key():
    return st.one_of(
        st.builds(lambda b: rc.tz_encode(b, "edpk"), st.binary(min_size=32, max_size=32)),
        st.builds(lambda b: rc.tz_encode(b, "sppk"), st.binary(min_size=33, max_size=33)),
        st.builds(lambda b: rc.tz_encode(b, "p2pk"), st.binary(min_size=33, max_size=33)),
        st.builds(lambda b: rc.tz_encode(b, "BLpk"), st.binary(min_size=48, max_size=48)))


@st.composite
def manager_content(draw, source=None, kinds=None, nat=None):
    nat = nat or nat_field()
    kind = draw(st.sampled_from(kinds or ["reveal", "transaction", "transaction", "transaction", "origination",
                                          "delegation", "register_global_constant", "transfer_ticket",
                                          "smart_rollup_add_messages", "smart_rollup_execute_outbox_message"]))
    c = {"kind": kind, "source": source or draw(pkh()), "fee": str(draw(nat)), "counter": str(draw(nat)),
         "gas_limit": str(draw(nat)), "storage_limit": str(draw(nat))}
    if kind == "reveal":
        c["public_key"] = draw(public_key())
        if c["public_key"].startswith("BLpk") and draw(st.booleans()):
            c["proof"] = rc.tz_encode(draw(st.binary(min_size=96, max_size=96)), "BLsig")
    elif kind == "transaction":
        c["amount"] = str(draw(nat))
        c["destination"] = draw(contract_addr())
        mode = draw(st.integers(0, 5))
        if mode == 0:
            pass
        elif mode == 1:
            c["parameters"] = {"entrypoint": "default", "value": {"prim": "Unit"}}
        elif mode == 2:  # Unit on any entrypoint: only default+Unit may be omitted
            c["parameters"] = {"entrypoint": draw(entrypoint_name()), "value": {"prim": "Unit"}}
        else:
            c["parameters"] = {"entrypoint": draw(entrypoint_name()), "value": draw(micheline())}
    elif kind == "origination":
        c["balance"] = str(draw(nat))
        if draw(st.booleans()):
            c["delegate"] = draw(pkh())
        c["script"] = {"code": draw(micheline()), "storage": draw(micheline(4))}
    elif kind == "delegation":
        if draw(st.booleans()):
            c["delegate"] = draw(pkh())
    elif kind == "register_global_constant":
        c["value"] = draw(micheline())
    elif kind == "transfer_ticket":
        c["ticket_contents"] = draw(micheline(4))
        c["ticket_ty"] = draw(micheline(4))
        c["ticket_ticketer"] = draw(contract_addr())
        c["ticket_amount"] = str(draw(nat))
        c["destination"] = draw(contract_addr())
        c["entrypoint"] = draw(entrypoint_name())
    elif kind == "smart_rollup_add_messages":
        c["message"] = [draw(st.binary(max_size=12)).hex() for _ in range(draw(st.integers(0, 5)))]
    else:
        c["rollup"] = rc.tz_encode(draw(hash20()), "sr1")
        c["cemented_commitment"] = rc.tz_encode(draw(st.binary(min_size=32, max_size=32)), "src1")
        c["output_proof"] = draw(st.binary(max_size=40)).hex()
    return c


@st.composite
def other_content(draw):
    if draw(st.booleans()):
        return {"kind": "failing_noop", "arbitrary": draw(st.text(max_size=20))}
    return {"kind": "activate_account", "pkh": rc.tz_encode(draw(hash20()), "tz1"),
            "secret": draw(st.binary(min_size=20, max_size=20)).hex()}


def branch():
    return st.binary(min_size=32, max_size=32).map(lambda b: rc.tz_encode(b, "B"))


@st.composite
def group(draw, max_contents=4):
    n = draw(st.integers(1, max_contents))
    if draw(st.integers(0, 7)) == 0:
        contents = [draw(other_content())]
    else:
        src = draw(pkh()) if draw(st.booleans()) else None
        contents = [draw(manager_content(source=src)) for _ in range(n)]
    return {"branch": draw(branch()), "contents": contents}
