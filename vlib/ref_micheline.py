"""Reference binary Micheline codec (independent of pytezos), written from the Tezos
`Micheline_encoding` / `data-encoding` rules, plus the protocol primitive table.
"""
from __future__ import annotations

from typing import Any, List, Tuple

# michelson_v1_primitives.ml, in encoding order (tag = index)
PRIMS: List[str] = [
    "parameter", "storage", "code", "False", "Elt", "Left", "None", "Pair", "Right", "Some", "True", "Unit",
    "PACK", "UNPACK", "BLAKE2B", "SHA256", "SHA512", "ABS", "ADD", "AMOUNT", "AND", "BALANCE", "CAR", "CDR",
    "CHECK_SIGNATURE", "COMPARE", "CONCAT", "CONS", "CREATE_ACCOUNT", "CREATE_CONTRACT", "IMPLICIT_ACCOUNT", "DIP",
    "DROP", "DUP", "EDIV", "EMPTY_MAP", "EMPTY_SET", "EQ", "EXEC", "FAILWITH", "GE", "GET", "GT", "HASH_KEY", "IF",
    "IF_CONS", "IF_LEFT", "IF_NONE", "INT", "LAMBDA", "LE", "LEFT", "LOOP", "LSL", "LSR", "LT", "MAP", "MEM", "MUL",
    "NEG", "NEQ", "NIL", "NONE", "NOT", "NOW", "OR", "PAIR", "PUSH", "RIGHT", "SIZE", "SOME", "SOURCE", "SENDER",
    "SELF", "STEPS_TO_QUOTA", "SUB", "SWAP", "TRANSFER_TOKENS", "SET_DELEGATE", "UNIT", "UPDATE", "XOR", "ITER",
    "LOOP_LEFT", "ADDRESS", "CONTRACT", "ISNAT", "CAST", "RENAME", "bool", "contract", "int", "key", "key_hash",
    "lambda", "list", "map", "big_map", "nat", "option", "or", "pair", "set", "signature", "string", "bytes", "mutez",
    "timestamp", "unit", "operation", "address", "SLICE", "DIG", "DUG", "EMPTY_BIG_MAP", "APPLY", "chain_id",
    "CHAIN_ID", "LEVEL", "SELF_ADDRESS", "never", "NEVER", "UNPAIR", "VOTING_POWER", "TOTAL_VOTING_POWER", "KECCAK",
    "SHA3", "PAIRING_CHECK", "bls12_381_g1", "bls12_381_g2", "bls12_381_fr", "sapling_state",
    "sapling_transaction_deprecated", "SAPLING_EMPTY_STATE", "SAPLING_VERIFY_UPDATE", "ticket", "TICKET_DEPRECATED",
    "READ_TICKET", "SPLIT_TICKET", "JOIN_TICKETS", "GET_AND_UPDATE", "chest", "chest_key", "OPEN_CHEST", "VIEW",
    "view", "constant", "SUB_MUTEZ", "tx_rollup_l2_address", "MIN_BLOCK_TIME", "sapling_transaction", "EMIT",
    "Lambda_rec", "LAMBDA_REC", "TICKET", "BYTES", "NAT", "Ticket", "IS_IMPLICIT_ACCOUNT",
]
assert len(PRIMS) == 0x9F
TAG = {p: i for i, p in enumerate(PRIMS)}
# deprecated placeholders whose spelling pytezos changes on purpose ('__CREATE_ACCOUNT__'); not asserted
UNASSERTED_TAGS = {0x1C, 0x4A}


class DecodeError(Exception):
    def __init__(self, reason, msg=""):
        super().__init__("%s %s" % (reason, msg))
        self.reason = reason


def zarith_int(v: int) -> bytes:
    neg = v < 0
    v = abs(v)
    first = v & 0x3F
    v >>= 6
    out = bytearray()
    b = first | (0x40 if neg else 0)
    if v:
        b |= 0x80
    out.append(b)
    while v:
        b = v & 0x7F
        v >>= 7
        if v:
            b |= 0x80
        out.append(b)
    return bytes(out)


def zarith_nat(v: int) -> bytes:
    assert v >= 0
    out = bytearray()
    while True:
        b = v & 0x7F
        v >>= 7
        if v:
            out.append(b | 0x80)
        else:
            out.append(b)
            return bytes(out)


def _arr(b: bytes) -> bytes:
    return len(b).to_bytes(4, "big") + b


def encode(e: Any) -> bytes:
    if isinstance(e, list):
        return b"\x02" + _arr(b"".join(encode(x) for x in e))
    if "int" in e:
        return b"\x00" + zarith_int(int(e["int"]))
    if "string" in e:
        return b"\x01" + _arr(e["string"].encode("utf-8"))
    if "bytes" in e:
        return b"\x0a" + _arr(bytes.fromhex(e["bytes"]))
    prim = bytes([TAG[e["prim"]]])
    args = e.get("args") or []
    annots = e.get("annots") or []
    ann = _arr(" ".join(annots).encode("utf-8"))
    body = b"".join(encode(a) for a in args)
    if len(args) == 0:
        return (b"\x04" + prim + ann) if annots else (b"\x03" + prim)
    if len(args) == 1:
        return (b"\x06" + prim + body + ann) if annots else (b"\x05" + prim + body)
    if len(args) == 2:
        return (b"\x08" + prim + body + ann) if annots else (b"\x07" + prim + body)
    return b"\x09" + prim + _arr(body) + ann


def normalize(e: Any) -> Any:
    """Canonical JSON form: ints as decimal strings, empty args/annots dropped, only the defining keys kept."""
    if isinstance(e, list):
        return [normalize(x) for x in e]
    if "prim" in e:
        out = {"prim": e["prim"]}
        if e.get("args"):
            out["args"] = [normalize(a) for a in e["args"]]
        if e.get("annots"):
            out["annots"] = list(e["annots"])
        return out
    if "int" in e:
        return {"int": str(int(e["int"]))}
    if "string" in e:
        return {"string": e["string"]}
    return {"bytes": e["bytes"].lower()}


class _R:
    def __init__(self, data: bytes):
        self.d = data
        self.p = 0

    def need(self, n):
        if self.p + n > len(self.d):
            raise DecodeError("truncated", "need %d at %d/%d" % (n, self.p, len(self.d)))

    def u8(self):
        self.need(1)
        v = self.d[self.p]
        self.p += 1
        return v

    def take(self, n):
        self.need(n)
        v = self.d[self.p:self.p + n]
        self.p += n
        return v

    def arr(self):
        n = int.from_bytes(self.take(4), "big")
        return self.take(n)


def _dec_int(r: _R) -> int:
    b = r.u8()
    neg = bool(b & 0x40)
    v = b & 0x3F
    shift = 6
    more = bool(b & 0x80)
    last = b
    n = 1
    while more:
        b = r.u8()
        n += 1
        v |= (b & 0x7F) << shift
        shift += 7
        more = bool(b & 0x80)
        last = b
    if n > 1 and last == 0:
        raise DecodeError("trailing-zero", "non-minimal integer")
    return -v if neg else v


def _dec_seq(body: bytes) -> list:
    r = _R(body)
    out = []
    while r.p < len(body):
        out.append(_dec(r))
    return out


def _dec_annots(r: _R):
    raw = r.arr()
    try:
        s = raw.decode("utf-8")
    except UnicodeDecodeError:
        raise DecodeError("annot-utf8")
    return [a for a in s.split(" ")] if s else []


def _dec_prim(r: _R):
    t = r.u8()
    if t >= len(PRIMS):
        raise DecodeError("unknown-prim", hex(t))
    return PRIMS[t], t


def _dec(r: _R):
    tag = r.u8()
    if tag == 0:
        return {"int": str(_dec_int(r))}
    if tag == 1:
        raw = r.arr()
        try:
            return {"string": raw.decode("utf-8")}
        except UnicodeDecodeError:
            raise DecodeError("string-utf8")  # not a Tezos rejection; callers treat it as "unconstrained"
    if tag == 2:
        return _dec_seq(r.arr())
    if 3 <= tag <= 8:
        prim, _ = _dec_prim(r)
        nargs = (tag - 3) // 2
        e = {"prim": prim}
        if nargs:
            e["args"] = [_dec(r) for _ in range(nargs)]
        if (tag - 3) % 2:
            a = _dec_annots(r)
            if a:
                e["annots"] = a
        return e
    if tag == 9:
        prim, _ = _dec_prim(r)
        e = {"prim": prim}
        args = _dec_seq(r.arr())
        if args:
            e["args"] = args
        a = _dec_annots(r)
        if a:
            e["annots"] = a
        return e
    if tag == 10:
        return {"bytes": r.arr().hex()}
    raise DecodeError("unknown-tag", str(tag))


# reasons for which the Tezos decoder certainly rejects (the four classes named by C05)
STRICT_REASONS = {"unknown-tag", "unknown-prim", "truncated", "trailing-bytes", "trailing-zero"}


def decode(data: bytes) -> Any:
    r = _R(data)
    e = _dec(r)
    if r.p != len(data):
        raise DecodeError("trailing-bytes", "%d of %d consumed" % (r.p, len(data)))
    return e


def uses_unasserted(e: Any) -> bool:
    if isinstance(e, list):
        return any(uses_unasserted(x) for x in e)
    if isinstance(e, dict) and "prim" in e:
        if TAG.get(e["prim"]) in UNASSERTED_TAGS:
            return True
        return any(uses_unasserted(a) for a in e.get("args", []))
    return False
