"""Coverage-guided campaigns (atheris / libFuzzer) with the oracle inside the target. Thorough tier only."""
import glob
import json
import os
import re
import shutil
import subprocess
import sys
import tempfile

from vlib.harness import NPROC, VERIF, Violation, shard_seed


def available():
    try:
        sys.path.insert(0, os.path.join(VERIF, ".deps"))
        import atheris  # noqa: F401
        return True
    except Exception:
        return False


def campaign(h, modname, corpus, runs, max_len, revalidate, workers=NPROC, label="atheris"):
    """Runs `workers` libFuzzer processes (half from an empty corpus, half seeded with `corpus`), `runs` executions
    each. Crashing inputs are re-validated in-process with `revalidate(data)` (raises Violation) before being
    reported, so a fuzzer-side hiccup is never reported as a violation."""
    if not available():
        h.coverage_extra["fuzz_engine"] = "atheris unavailable: campaign skipped (hypothesis mutation only)"
        return
    tmp = tempfile.mkdtemp(prefix="vfuzz_")
    procs = []
    try:
        for w in range(workers):
            cdir = os.path.join(tmp, "corpus%d" % w)
            adir = os.path.join(tmp, "art%d" % w) + os.sep
            os.makedirs(cdir)
            os.makedirs(adir)
            if w % 2 == 1:
                for i, c in enumerate(corpus):
                    with open(os.path.join(cdir, "seed%d" % i), "wb") as f:
                        f.write(c)
            stats = os.path.join(tmp, "stats%d.json" % w)
            env = dict(os.environ, PYTHONPATH=os.pathsep.join(
                [os.environ.get("VERIF_REPO_SRC", "/repo/src"), VERIF, os.path.join(VERIF, ".deps")]))
            cmd = ["/venv/bin/python", "-W", "ignore", "-m", "vlib.fuzz_worker", modname, stats, cdir,
                   "-runs=%d" % runs, "-seed=%d" % (shard_seed(h.seed, 100 + w) % (2 ** 31 - 2) + 1),
                   "-max_len=%d" % max_len, "-artifact_prefix=" + adir, "-print_final_stats=1", "-verbosity=0"]
            procs.append((w, adir, stats, subprocess.Popen(cmd, cwd=VERIF, env=env, stdout=subprocess.DEVNULL,
                                                           stderr=subprocess.PIPE, text=True)))
        total = nontriv = 0
        classes = {}
        for w, adir, stats, p in procs:
            _, err = p.communicate()
            if os.path.exists(stats):
                s = json.load(open(stats))
                nontriv += s["nontrivial"]
                for k, v in s["classes"].items():
                    classes[k] = classes.get(k, 0) + v
            m = re.search(r"stat::number_of_executed_units:\s*(\d+)", err or "")
            total += int(m.group(1)) if m else 0
            for crash in sorted(glob.glob(adir + "crash-*")):
                data = open(crash, "rb").read()
                try:
                    revalidate(data)
                except Violation as v:
                    if not any(x["sig"] == v.sig for x in h.stats.violations):
                        h.stats.violations.append({"msg": v.msg, "case": v.case, "sig": v.sig})
        h.stats.evaluations += total
        h.stats.classes[label + "-executions"] += total
        for k, v in classes.items():
            h.stats.classes[label + ":" + k] += v
        h.coverage_extra["fuzz_engine"] = ("atheris/libFuzzer, %d workers x %d runs, max_len %d, half empty-corpus "
                                           "half seeded; %d executions, ~%d non-trivial (not de-duplicated, not added "
                                           "to distinct_nontrivial)" % (workers, runs, max_len, total, nontriv))
    finally:
        for _, _, _, p in procs:
            if p.poll() is None:
                p.kill()
        shutil.rmtree(tmp, ignore_errors=True)
