"""Type-directed generator of well-typed Michelson programs (by construction, not by filtering).

A program is a sequence of chunks; every chunk is generated against the current abstract type stack and the stack
after it is computed with the reference typechecker (ref_interp.Machine(concrete=False)). Conditionals get both
branches generated and unified with a coercion suffix; loops use counted templates."""
from __future__ import annotations

from hypothesis import strategies as st

from vlib import gen_types as gt
from vlib import ref_arith as ra
from vlib import ref_interp as ri
from vlib import ref_values as rv
from vlib.ref_values import T

LEAVES = ["int", "nat", "string", "bytes", "mutez", "bool", "unit", "timestamp", "key_hash", "address", "chain_id"]
ENV = list(ri.ENV_INSTR)


def P(prim, *args):
    return {"prim": prim, "args": list(args)} if args else {"prim": prim}


def I(n):
    return {"int": str(n)}


def push(t, v):
    return P("PUSH", t, rv.to_micheline(t, v))


def types_after(code, ts):
    """Static result types of `code` from type stack ts; None if the block always fails."""
    m = ri.Machine(concrete=False, fuel=100000)
    try:
        out = m.run(code, [(t, ri.ABS) for t in ts])
    except ri.Failed:
        return None
    return [t for t, _ in out]


def small_type(depth=1, comparable=False):
    leaves = [l for l in LEAVES]
    if comparable:
        return gt.comparable_types(depth, leaves)
    return gt.types(depth, leaves=leaves, collections=True)


@st.composite
def construct(draw, t):
    """Code that pushes one value of type t (None if impossible: ticket, operation, big_map...)."""
    p, a = t["prim"], rv.targs(t)
    if rv.is_pushable(t) and not rv.contains_type(t, {"lambda"}):
        return [push(t, draw(gt.values(t)))]
    if p == "option":
        return [P("NONE", a[0])]
    if p == "list":
        return [P("NIL", a[0])]
    if p == "set":
        return [P("EMPTY_SET", a[0])]
    if p == "map":
        return [P("EMPTY_MAP", a[0], a[1])]
    if p == "lambda":
        body = draw(construct(a[1]))
        if body is None:
            return [P("LAMBDA", a[0], a[1], [push(T("string"), "no"), P("FAILWITH")])]
        return [P("LAMBDA", a[0], a[1], [P("DROP")] + body)]
    if p == "pair":
        l, r = draw(construct(a[0])), draw(construct(a[1]))
        if l is None or r is None:
            return None
        return r + l + [P("PAIR")]
    if p == "or":
        l = draw(construct(a[0]))
        if l is not None:
            return l + [P("LEFT", a[1])]
        r = draw(construct(a[1]))
        return None if r is None else r + [P("RIGHT", a[0])]
    return None


@st.composite
def coerce(draw, cur, target):
    """Code turning type stack `cur` into `target` (drop down to the common bottom, rebuild the rest)."""
    c = 0
    while c < min(len(cur), len(target)) and cur[len(cur) - 1 - c] == target[len(target) - 1 - c]:
        c += 1
    code = []
    ndrop = len(cur) - c
    if ndrop == 1:
        code.append(P("DROP"))
    elif ndrop > 1:
        code.append(P("DROP", I(ndrop)))
    for t in reversed(target[:len(target) - c]):
        k = draw(construct(t))
        if k is None:
            return None
        code += k
    return code


FAIL_BLOCK = [push(T("string"), "unreachable"), P("FAILWITH")]


# ---- chunks ------------------------------------------------------------------------------------------
class Gen:
    def __init__(self, draw, profile="core", max_depth=2):
        self.draw = draw
        self.profile = profile
        self.max_depth = max_depth
        self.used = set()
        self.forced = []

    def d(self, s):
        return self.draw(s)

    def pick(self, xs):
        return self.draw(st.sampled_from(xs))

    # -- blocks
    def block(self, ts, size, depth):
        """(code, result types or None when the block ends with a failure)."""
        code = []
        cur = list(ts)
        for _ in range(size):
            chunk = self.chunk(cur, depth)
            if not chunk:
                continue
            try:
                new = types_after(chunk, cur)
            except ri.IllTyped as e:
                raise ri.IllTyped("generator produced an ill-typed chunk (%s) on %s: %s" % (e, cur, chunk))
            code += chunk
            if new is None:
                return code, None
            cur = new
            if len(cur) > 9:  # keep stacks small
                code.append(P("DROP", I(len(cur) - 6)))
                cur = cur[len(cur) - 6:]
        return code, cur

    def unified(self, st_a, st_b, size, depth):
        """Two blocks from two entry stacks ending with the same type stack."""
        a, ta = self.block(st_a, size, depth - 1)
        b, tb = self.block(st_b, size, depth - 1)
        if ta is None and tb is None:
            fix = self.d(coerce(st_a, []))
            return (FAIL_BLOCK if fix is None else fix), (FAIL_BLOCK if self.d(coerce(st_b, [])) is None
                                                            else self.d(coerce(st_b, [])))
        if ta is None:
            return a, b
        if tb is None:
            return a, b
        fix = self.d(coerce(tb, ta))
        if fix is not None:
            return a, b + fix
        fix = self.d(coerce(ta, tb))
        if fix is not None:
            return a + fix, b
        return a, FAIL_BLOCK

    def preserving(self, ts_in, ts_out, size, depth):
        """Block from ts_in that ends exactly with ts_out."""
        code, cur = self.block(ts_in, size, depth - 1)
        if cur is None:
            return code
        fix = self.d(coerce(cur, ts_out))
        if fix is None:
            fix2 = self.d(coerce(ts_in, ts_out))
            return fix2 if fix2 is not None else FAIL_BLOCK
        return code + fix

    # -- chunk dispatch
    def chunk(self, ts, depth):
        kinds = ["push", "push", "stack", "arith", "arith", "compare", "comb", "comb", "option_or", "list", "setmap", "setmap",
                 "strbytes", "strbytes", "env", "usetop", "usetop", "usetop", "pack"]
        kinds += ["build", "noop"]
        if depth > 0:
            kinds += ["if", "lambda", "loop", "iter", "dip", "ifnone", "dipstack", "lambdarec", "oddlambda", "mapconv"]
        if self.profile == "tickets":
            kinds = ["ticket"] * 12 + ["stack", "stack", "push", "option_or", "usetop"] + (["ifnone", "dip"] if depth > 0 else [])
        elif self.profile == "collections":
            kinds = ["setmap"] * 7 + ["list"] * 3 + ["comb"] * 2 + ["usetop", "usetop", "stack", "arith", "option_or"] + \
                (["ifnone", "dip", "iter", "mapconv", "mapconv"] if depth > 0 else [])
        elif self.profile == "combs":
            kinds = ["combpush"] * 7 + ["fieldflow"] * 8 + ["comb"] * 3 + ["pack"] * 2 + ["usetop"] * 3 + \
                ["stack", "push", "option_or", "setmap", "list"] + (["ifnone", "dip", "iter", "if", "lambda", "lambda"] if depth > 0 else [])
        elif self.profile == "core":
            kinds += ["ticket"]
            if self.d(st.integers(0, 60)) == 0:
                kinds = ["fail"]
        k = self.pick(kinds)
        if self.forced:  # focused tier: the next chunk kinds are prescribed
            k = self.forced.pop(0)
        self.used.add(k)
        return getattr(self, "c_" + k)(ts, depth)

    # -- simple chunks
    def c_push(self, ts, depth):
        t = self.d(small_type(self.d(st.integers(0, 1))))
        return [push(t, self.d(gt.values(t)))]

    def c_env(self, ts, depth):
        return [P(self.pick(ENV))]

    def c_fail(self, ts, depth):
        if ts and rv.is_packable(ts[0]) and not rv.contains_type(ts[0], {"lambda"}) and self.d(st.booleans()):
            return [P("FAILWITH")]
        t = self.d(small_type(1))
        return [push(t, self.d(gt.values(t))), P("FAILWITH")]

    def c_stack(self, ts, depth):
        n = len(ts)
        opts = []
        if n >= 1:
            opts += ["DROP"]
            if rv.is_duplicable(ts[0]):
                opts += ["DUP", "DUP"]
        if n >= 2:
            opts += ["SWAP", "SWAP", "DIG", "DUG", "DUPn", "DROPn", "DIGDUG"]
        if not opts:
            return self.c_push(ts, depth)
        o = self.pick(opts)
        if o in ("DROP", "DUP", "SWAP"):
            return [P(o)]
        if o == "DIG":
            return [P("DIG", I(self.d(st.integers(0, n - 1))))]
        if o == "DUG":
            return [P("DUG", I(self.d(st.integers(0, n - 1))))]
        if o == "DIGDUG":
            k = self.d(st.integers(1, n - 1))
            return [P("DIG", I(k)), P("DUG", I(self.d(st.integers(0, n - 1))))]
        if o == "DUPn":
            cands = [i + 1 for i in range(n) if rv.is_duplicable(ts[i])]
            return [P("DUP", I(self.pick(cands)))] if cands else [P("SWAP")]
        return [P("DROP", I(self.d(st.integers(0, min(n, 3)))))]

    def c_dip(self, ts, depth):
        if not ts:
            return self.c_push(ts, depth)
        n = self.d(st.integers(1, min(len(ts), 3)))
        body, out = self.block(ts[n:], self.d(st.integers(1, 3)), depth - 1)
        return [P("DIP", body) if n == 1 and self.d(st.booleans()) else P("DIP", I(n), body)]

    def c_arith(self, ts, depth):
        table = self.pick([ra.BINARY, ra.BINARY, ra.UNARY])
        op = self.pick(sorted(table))
        key = self.pick(sorted(table[op], key=str))
        tys = [key] if isinstance(key, str) else list(key)
        code = []
        # reuse the top of the stack as first operand when it has the right type (data dependence on inputs)
        reuse = bool(ts) and ts[0] == T(tys[0]) and self.d(st.booleans())
        for i, t in reversed(list(enumerate(tys))):
            if i == 0 and reuse:
                continue
            code.append(push(T(t), self._operand(op, t, i)))
            if reuse and i == 1:
                code.append(P("SWAP"))
        return code + [P(op)]

    def _operand(self, op, t, i):
        if t == "bool":
            return self.d(st.booleans())
        if t == "bytes":
            return self.d(st.one_of(gt.mbytes(), st.sampled_from([b"\x80", b"\x00\x80", b"\xff\x7f", b"\x00"])))
        if op in ("LSL", "LSR") and i == 1:
            return self.d(st.sampled_from([0, 1, 8, 255, 256, 257, 300]))
        if t == "mutez":
            return self.d(st.one_of(gt.mutez(), st.sampled_from([0, 1, 2 ** 62, 2 ** 63 - 1])))
        if t == "nat":
            return self.d(st.one_of(st.integers(0, 20), gt.ints(False, 256)))
        if t == "int":
            return self.d(st.one_of(st.integers(-20, 20), gt.ints(True, 256)))
        return self.d(gt.leaf_value(t))

    def c_compare(self, ts, depth):
        t = self.d(small_type(self.d(st.integers(0, 1)), comparable=True))
        if self.d(st.integers(0, 2)) == 0:   # the leaves whose order is not the order of their spelling get a third of the comparisons
            leaf = T(self.pick(["address", "address", "key", "key_hash", "signature", "timestamp", "bool"]))
            t = self.pick([leaf, leaf, T("pair", leaf, T("nat")), T("option", leaf), T("or", leaf, T("unit"))])
        a = self.d(gt.values(t))
        b = self.d(gt.near(t, a)) if self.d(st.integers(0, 3)) else a
        if rv.compare(t, a, b) is rv.UNCONSTRAINED:
            b = a
        code = [push(t, b), push(t, a), P("COMPARE")]
        if self.d(st.booleans()):
            code.append(P(self.pick(sorted(ri.ZERO_CMP))))
        return code

    def c_comb(self, ts, depth):
        n = self.d(st.integers(2, 5))
        tys = [self.d(small_type(0)) for _ in range(n)]
        code = [push(t, self.d(gt.values(t))) for t in reversed(tys)]
        if ts and self.d(st.booleans()):  # the current top becomes the first component
            tys[0] = ts[0]
            code = [push(t, self.d(gt.values(t))) for t in reversed(tys[1:])] + [P("DIG", I(n - 1))]
        code.append(P("PAIR", I(n)) if n > 2 or self.d(st.booleans()) else P("PAIR"))
        k = self.pick(["GET", "GET", "UPDATE", "UNPAIRn", "CAR", "CDR", "UNPAIR", "keep"])
        if k == "GET":
            code.append(P("GET", I(self.d(st.integers(0, 2 * n - 2)))))
        elif k == "UPDATE":
            idx = self.d(st.integers(0, 2 * n - 2))
            t = self._replacement_type(tys, idx)
            code += [push(t, self.d(gt.values(t))), P("UPDATE", I(idx))]
        elif k == "UNPAIRn":
            code.append(P("UNPAIR", I(self.d(st.integers(2, n)))))
        elif k in ("CAR", "CDR", "UNPAIR"):
            code.append(P(k))
        return code

    def _replacement_type(self, tys, idx):
        """Type of the element given to UPDATE idx on a comb of component types tys: often the same head constructor as the
        component it replaces but with different arguments (option nat -> option string), so that a stale type shows."""
        old = None
        if idx % 2 == 1 and idx // 2 < len(tys):
            old = tys[idx // 2]
        elif idx and idx // 2 - 1 < len(tys):
            old = rv.pair_t(*tys[idx // 2:]) if len(tys) - idx // 2 >= 2 else tys[-1]
        if old is not None and rv.targs(old) and self.d(st.integers(0, 3)):
            for _ in range(4):
                new_args = []
                for a in rv.targs(old):
                    cmp_needed = old["prim"] in ("set", "map") and not new_args
                    new_args.append(self.d(small_type(0, comparable=cmp_needed)))
                cand = T(old["prim"], *new_args)
                if cand != old and rv.is_pushable(cand):
                    return cand
        return self.d(small_type(self.d(st.integers(0, 1))))

    def c_combpush(self, ts, depth):
        """PUSH of a right comb type (so that its type expression can carry annotations) + a comb instruction."""
        n = self.d(st.integers(3, 6))
        tys = [self.d(small_type(self.d(st.integers(0, 1)))) for _ in range(n)]
        t = rv.pair_t(*tys)
        code = [push(t, self.d(gt.values(t)))]
        k = self.pick(["GET", "GET", "UPDATE", "UPDATE", "UNPAIRn", "UNPAIRn", "CAR", "CDR", "UNPAIR", "PACK", "PACKUNPACK", "keep",
                       "COMPARE"])
        if k == "GET":
            code.append(P("GET", I(self.d(st.integers(0, 2 * n - 2)))))
        elif k == "UPDATE":
            idx = self.d(st.integers(0, 2 * n - 2))
            composite = [2 * i + 1 for i, ct in enumerate(tys[:-1]) if rv.targs(ct)]
            if composite and self.d(st.integers(0, 9)) < 6:
                idx = self.pick(composite)
            t2 = self._replacement_type(tys, idx)
            code += [push(t2, self.d(gt.values(t2))), P("UPDATE", I(idx))]
        elif k == "UNPAIRn":
            code.append(P("UNPAIR", I(self.d(st.integers(2, n)))))
        elif k in ("CAR", "CDR", "UNPAIR"):
            code.append(P(k))
        elif k == "PACK" and rv.is_packable(t):
            code.append(P("PACK"))
        elif k == "PACKUNPACK" and rv.is_packable(t):
            code += [P("PACK"), P("UNPACK", t)]
        elif k == "COMPARE" and rv.is_comparable(t):
            code += [push(t, self.d(gt.values(t))), P("COMPARE")]
        return code

    def c_fieldflow(self, ts, depth):
        """Any other chunk, with its top-level PUSH t v rewritten to PUSH (pair t u) (Pair v u'); CAR (or CDR / GET k on a
        longer comb): same meaning, but the operand now comes out of a pair component, whose type can carry a field annotation."""
        kind = self.pick(["arith", "arith", "compare", "option_or", "list", "list", "setmap", "setmap", "setmap", "strbytes", "strbytes",
                          "strbytes", "pack", "comb", "push", "ticket"] + (["lambda", "lambda", "iter"] if depth > 0 else []))
        chunk = getattr(self, "c_" + kind)(ts, depth)
        out = []
        for ins in chunk:
            if isinstance(ins, dict) and ins.get("prim") == "PUSH" and not rv.contains_type(ins["args"][0], {"lambda"}) \
                    and self.d(st.integers(0, 9)) < 7:
                out += self._via_pair(ins["args"][0], ins["args"][1])
            else:
                out.append(ins)
        return out

    def _via_pair(self, t, v):
        ot = self.d(small_type(0))
        ov = rv.to_micheline(ot, self.d(gt.values(ot)))
        shape = self.pick(["CAR", "CDR", "GET1", "GET2", "GET3", "GET4", "UNPAIR", "UNPAIR3"])
        pr = lambda a, b: {"prim": "Pair", "args": [a, b]}
        if shape in ("CAR", "GET1"):
            return [P("PUSH", T("pair", t, ot), pr(v, ov)), P("CAR") if shape == "CAR" else P("GET", I(1))]
        if shape in ("CDR", "GET2"):
            return [P("PUSH", T("pair", ot, t), pr(ov, v)), P("CDR") if shape == "CDR" else P("GET", I(2))]
        if shape == "GET3":
            return [P("PUSH", rv.pair_t(ot, t, ot), pr(ov, pr(v, ov))), P("GET", I(3))]
        if shape == "GET4":
            return [P("PUSH", rv.pair_t(ot, ot, t), pr(ov, pr(ov, v))), P("GET", I(4))]
        if shape == "UNPAIR":
            return [P("PUSH", T("pair", t, ot), pr(v, ov)), P("UNPAIR"), P("SWAP"), P("DROP")]
        return [P("PUSH", rv.pair_t(t, ot, ot), pr(v, pr(ov, ov))), P("UNPAIR", I(3)), P("DIG", I(2)), P("DROP"), P("SWAP"), P("DROP")]

    def c_dipstack(self, ts, depth):
        """DIP / DIP n whose body is made of stack-shuffling instructions addressed by depth (DUP n, DIG, DUG, DROP n, PAIR n...)."""
        if len(ts) < 2:
            return self.c_push(ts, depth) + self.c_push(ts, depth)
        n = self.d(st.integers(1, min(len(ts) - 1, 3)))
        cur = list(ts[n:])
        body = []
        for _ in range(self.d(st.integers(1, 3))):
            ch = self.c_stack(cur, depth) if self.d(st.integers(0, 4)) else self.c_dipstack(cur, depth - 1) if depth > 1 else self.c_stack(cur, depth)
            new = types_after(ch, cur)
            if new is None:
                break
            body += ch
            cur = new
        return [P("DIP", body) if n == 1 and self.d(st.booleans()) else P("DIP", I(n), body)]

    def c_lambdarec(self, ts, depth):
        """LAMBDA_REC (pair nat nat) nat: f (n, acc) = if n = 0 then acc else f (n - 1, acc + n); executed or partially applied."""
        body = [P("UNPAIR"), P("DUP"), push(T("nat"), 0), P("COMPARE"), P("EQ"),
                P("IF", [P("DROP"), P("SWAP"), P("DROP")],
                  [P("DUP"), P("DIG", I(2)), P("ADD"), P("SWAP"), push(T("nat"), 1), P("SWAP"), P("SUB"), P("ABS"), P("PAIR"), P("EXEC")])]
        pt = T("pair", T("nat"), T("nat"))
        code = [P("LAMBDA_REC", pt, T("nat"), body)]
        n, acc = self.d(st.integers(0, 5)), self.d(st.integers(0, 9))
        k = self.pick(["EXEC", "EXEC", "APPLY", "keep"])
        if k == "EXEC":
            code += [push(pt, (n, acc)), P("EXEC")]
        elif k == "APPLY":
            code += [push(T("nat"), n), P("APPLY"), push(T("nat"), acc), P("EXEC")]
        return code

    def c_build(self, ts, depth):
        """collections built from EMPTY_SET / EMPTY_MAP / NIL by UPDATE / CONS (rather than pushed as literals)"""
        kind = self.pick(["set", "map", "list"])
        if kind == "list":
            t = self.d(small_type(0))
            code = [P("NIL", t)]
            for _ in range(self.d(st.integers(0, 3))):
                code += [push(t, self.d(gt.values(t))), P("CONS")]
            return code + ([P("SIZE")] if self.d(st.integers(0, 3)) == 0 else [])
        kt = self.d(small_type(self.d(st.integers(0, 1)), comparable=True))
        base = self.d(gt.values(kt))
        ks = gt._consistent(kt, [base] + [self.d(gt.near(kt, base)) for _ in range(self.d(st.integers(0, 3)))])
        if kind == "set":
            code = [P("EMPTY_SET", kt)]
            for k in ks:
                code += [push(T("bool"), self.d(st.integers(0, 4)) != 0), push(kt, k), P("UPDATE")]
            return code
        vt = self.d(small_type(0))
        code = [P("EMPTY_MAP", kt, vt)]
        for k in ks:
            ov = self.d(st.one_of(st.none(), gt.values_z(vt).map(lambda x: ("Some", x))))
            code += [push(T("option", vt), ov), push(kt, k), P(self.pick(["UPDATE", "UPDATE", "GET_AND_UPDATE"]))]
            if code[-1]["prim"] == "GET_AND_UPDATE":
                code.append(P("DROP"))
        if ks and self.d(st.integers(0, 2)) == 0:  # read one binding back, keeping what GET_AND_UPDATE / GET returns
            ov = self.d(st.one_of(st.none(), gt.values_z(vt).map(lambda x: ("Some", x))))
            if self.d(st.booleans()) or not rv.is_duplicable(vt):
                code += [push(T("option", vt), ov), push(kt, self.pick(ks)), P("GET_AND_UPDATE")]
            else:
                code += [P("DUP"), push(kt, self.pick(ks)), P("GET")]
        return code

    def c_noop(self, ts, depth):
        if not ts:
            return self.c_push(ts, depth)
        return [P("CAST", ts[0])] if self.d(st.booleans()) else [P("RENAME")]

    def c_option_or(self, ts, depth):
        t = self.d(small_type(0))
        v = push(t, self.d(gt.values(t)))
        k = self.pick(["SOME", "NONE", "LEFT", "RIGHT"])
        other = self.d(small_type(0))
        if k == "SOME":
            return [v, P("SOME")]
        if k == "NONE":
            return [P("NONE", t)]
        return [v, P(k, other)]

    def c_ifnone(self, ts, depth):
        if ts and ts[0]["prim"] == "option":
            inner = rv.targs(ts[0])[0]
            a, b = self.unified(ts[1:], [inner] + ts[1:], self.d(st.integers(0, 2)), depth)
            return [P("IF_NONE", a, b)]
        if ts and ts[0]["prim"] == "or":
            l, r = rv.targs(ts[0])
            a, b = self.unified([l] + ts[1:], [r] + ts[1:], self.d(st.integers(0, 2)), depth)
            return [P("IF_LEFT", a, b)]
        if ts and ts[0]["prim"] == "list":
            a, b = self.unified([rv.targs(ts[0])[0], ts[0]] + ts[1:], ts[1:], self.d(st.integers(0, 2)), depth)
            return [P("IF_CONS", a, b)]
        # nothing to destruct on the stack: push an option / or / list value first
        inner = self.d(small_type(0))
        t = self.pick([T("option", inner), T("or", inner, self.d(small_type(0))), T("or", self.d(small_type(0)), inner), T("list", inner)])
        pre = [push(t, self.d(gt.values(t)))]
        return pre + self.c_ifnone([t] + ts, depth)

    def c_if(self, ts, depth):
        pre = []
        if not (ts and ts[0] == T("bool")):
            pre = self.c_compare(ts, depth)
            if pre[-1]["prim"] == "COMPARE":
                pre.append(P(self.pick(sorted(ri.ZERO_CMP))))
            base = ts
        else:
            base = ts[1:]
        a, b = self.unified(base, base, self.d(st.integers(0, 3)), depth)
        return pre + [P("IF", a, b)]

    def c_list(self, ts, depth):
        t = self.d(small_type(0))
        vals = self.d(st.lists(gt.values(t), max_size=3))
        code = [push(T("list", t), vals)]
        k = self.pick(["CONS", "SIZE", "IF_CONS", "MAP", "ITER", "keep", "CONCAT"])
        if k == "CONS":
            code = code + [push(t, self.d(gt.values(t))), P("CONS")]
        elif k == "SIZE":
            code.append(P("SIZE"))
        elif k == "IF_CONS" and depth > 0:
            a, b = self.unified([t, T("list", t)] + ts, ts, self.d(st.integers(0, 2)), depth)
            code.append(P("IF_CONS", a, b))
        elif k == "MAP" and depth > 0:
            body, out = self.block([t] + ts, self.d(st.integers(0, 2)), depth - 1)
            if out is not None and len(out) >= 1:
                fix = self.d(coerce(out[1:], ts)) if out[1:] != ts else []
                if fix is not None:
                    if fix:
                        body = body + [P("DIP", fix)]
                    code.append(P("MAP", body))
        elif k == "ITER" and depth > 0:
            code.append(P("ITER", self.preserving([t] + ts, ts, self.d(st.integers(0, 2)), depth)))
        elif k == "CONCAT":
            tt = self.pick(["string", "bytes"])
            vs = self.d(st.lists(gt.leaf_value(tt), max_size=3))
            code = [push(T("list", T(tt)), vs), P("CONCAT")]
        return code

    def c_mapconv(self, ts, depth):
        """MAP whose body changes the element type but not the number / content it carries (nat -> int, timestamp -> int, ...)"""
        nat, int_, ts_ = T("nat"), T("int"), T("timestamp")
        convs = [
            (nat, int_, [P("INT")], gt.ints(False, 64)),
            (nat, int_, [push(int_, 0), P("ADD")], gt.ints(False, 64)),
            (int_, nat, [P("ABS")], gt.ints(False, 64)),
            (int_, nat, [P("ABS")], gt.ints(True, 64)),
            (ts_, int_, [push(ts_, 0), P("SWAP"), P("SUB")], st.integers(0, 2 ** 33)),
            (int_, ts_, [push(ts_, 0), P("ADD")], st.integers(0, 2 ** 33)),
            (T("pair", nat, nat), T("pair", int_, nat), [P("UNPAIR"), P("INT"), P("PAIR")], st.tuples(gt.ints(False, 64), gt.ints(False, 64))),
            (T("option", nat), T("option", int_), [P("IF_NONE", [P("NONE", int_)], [P("INT"), P("SOME")])],
             st.one_of(st.none(), gt.ints(False, 64).map(lambda n: ("Some", n)))),
        ]
        src, dst, body, vals = self.pick(convs)
        shape = self.pick(["list", "list", "map"])   # (MAP over an option is not implemented by pytezos: outside the supported set)
        if shape == "list":
            return [push(T("list", src), self.d(st.lists(vals, min_size=0 if self.d(st.integers(0, 5)) == 0 else 1, max_size=3))), P("MAP", body)]
        if shape == "option":
            return [push(T("option", src), self.d(st.one_of(st.none(), vals.map(lambda v: ("Some", v)), vals.map(lambda v: ("Some", v))))),
                    P("MAP", body)]
        kt = self.pick([nat, T("string"), T("pair", nat, nat)])
        ks = rv.sort_values(kt, gt._consistent(kt, self.d(st.lists(gt.values(kt), min_size=1, max_size=3))))
        ks = [k for i, k in enumerate(ks) if i == 0 or rv.compare(kt, ks[i - 1], k) != 0]
        return [push(T("map", kt, src), [(k, self.d(vals)) for k in ks]), P("MAP", [P("CDR")] + body)]

    def c_iter(self, ts, depth):
        return self.c_list(ts, depth)

    def c_setmap(self, ts, depth):
        coll = self.profile == "collections"
        kt = self.d(small_type(1 if coll else self.d(st.integers(0, 1)), comparable=True))
        base = self.d(gt.values(kt))
        ks = [base] + [self.d(gt.near(kt, base)) for _ in range(self.d(st.integers(1 if coll else 0, 3)))]
        ks = rv.sort_values(kt, gt._consistent(kt, ks))
        probe = self.pick(ks) if self.d(st.booleans()) else self.d(gt.near(kt, base))
        if any(rv.compare(kt, probe, k) is rv.UNCONSTRAINED for k in ks):
            probe = ks[0]
        if self.d(st.booleans()):  # set
            ct = T("set", kt)
            code = [push(ct, ks[:self.d(st.integers(1 if coll else 0, len(ks)))])]
            k = self.pick(["MEM", "UPDATE", "SIZE", "ITER", "keep"])
            if k == "MEM":
                code += [push(kt, probe), P("MEM")]
            elif k == "UPDATE":
                code += [push(T("bool"), self.d(st.booleans())), push(kt, probe), P("UPDATE")]
            elif k == "SIZE":
                code.append(P("SIZE"))
            elif k == "ITER" and depth > 0:
                code.append(P("ITER", self.preserving([kt] + ts, ts, self.d(st.integers(0, 2)), depth)))
            return code
        vt = self.d(small_type(0 if self.d(st.integers(0, 2)) else 1))
        if self.profile == "combs" or self.d(st.integers(0, 3)) == 0:  # values that are pairs: MAP / ITER bodies can project them
            vt = T("pair", self.d(small_type(0)), self.d(small_type(0)))
        ct = T("map", kt, vt)
        sub = ks[:self.d(st.integers(1 if coll else 0, len(ks)))]
        code = [push(ct, [(k, self.d(gt.values_z(vt))) for k in sub])]
        k = self.pick(["MEM", "GET", "UPDATE", "GET_AND_UPDATE", "SIZE", "ITER", "MAP", "keep"] +
                      (["MAP", "MAP", "UPDATE", "GET_AND_UPDATE", "GET_AND_UPDATE"] if coll else []))
        ov = self.d(st.one_of(st.none(), gt.values_z(vt).map(lambda x: ("Some", x))))
        if k in ("GET", "UPDATE", "GET_AND_UPDATE") and sub and self.d(st.integers(0, 2)):  # mostly a key that is bound
            probe = self.pick(sub)
        if k in ("MEM", "GET"):
            code += [push(kt, probe), P(k)]
        elif k in ("UPDATE", "GET_AND_UPDATE"):
            code += [push(T("option", vt), ov), push(kt, probe), P(k)]
        elif k == "SIZE":
            code.append(P("SIZE"))
        elif k == "ITER" and depth > 0:
            code.append(P("ITER", self.preserving([T("pair", kt, vt)] + ts, ts, self.d(st.integers(0, 2)), depth)))
        elif k == "MAP":
            fs = [[P("CDR")], [P("CAR")], [P("DROP"), P("UNIT")], [P("CDR"), P("SOME")]]
            if vt["prim"] == "pair":
                fs += [[P("CDR"), P("CAR")], [P("CDR"), P("CDR")], [P("CDR"), P("GET", I(1))], [P("CDR"), P("UNPAIR"), P("DROP")],
                       [P("CDR"), P("CAR"), P("SOME")], [P("UNPAIR"), P("DROP"), P("CDR")]] * 2
            code.append(P("MAP", self.pick(fs)))
        return code

    def c_strbytes(self, ts, depth):
        tt = self.pick(["string", "bytes"])
        s = self.d(gt.leaf_value(tt))
        k = self.pick(["CONCAT", "SIZE", "SLICE", "SLICE", "HASH", "keep"])
        if k == "CONCAT":
            return [push(T(tt), self.d(gt.leaf_value(tt))), push(T(tt), s), P("CONCAT")]
        if k == "SIZE":
            return [push(T(tt), s), P("SIZE")]
        if k == "SLICE":
            n = len(s)
            off = self.d(st.sampled_from([0, 1, max(0, n - 1), n, n + 1]))
            ln = self.d(st.sampled_from([0, 1, max(0, n - off), max(0, n - off) + 1, n]))
            return [push(T(tt), s), push(T("nat"), ln), push(T("nat"), off), P("SLICE")]
        if k == "HASH":
            # message lengths around the block / rate sizes of the hash functions (64, 72, 128, 136 bytes) matter for padding
            n = self.d(st.one_of(st.integers(0, 20), st.sampled_from([55, 56, 63, 64, 65, 71, 72, 111, 112, 119, 120, 127, 128, 129, 135, 136,
                                                                      137, 143, 144, 199, 200, 255, 256, 271, 272, 273])))
            return [push(T("bytes"), self.d(st.binary(min_size=n, max_size=n))), P(self.pick(sorted(ri.HASHES)))]
        return [push(T(tt), s)]

    def c_pack(self, ts, depth):
        t = self.d(small_type(self.d(st.integers(0, 1))))
        code = [push(t, self.d(gt.values(t))), P("PACK")]
        k = self.pick(["keep", "UNPACK", "UNPACK", "UNPACK-other", "HASH"])
        if k == "UNPACK":
            code.append(P("UNPACK", t))
        elif k == "UNPACK-other":
            code.append(P("UNPACK", self.d(small_type(0))))
        elif k == "HASH":
            code.append(P(self.pick(sorted(ri.HASHES))))
        return code

    def c_usetop(self, ts, depth):
        """An instruction consuming what is on the stack (so results depend on the inputs)."""
        if not ts:
            return self.c_push(ts, depth)
        t0 = ts[0]
        p = t0["prim"]
        opts = []
        if p in ra.UNARY_BY_TYPE:
            opts += ra.UNARY_BY_TYPE[p]
        if p == "int":
            opts += sorted(ri.ZERO_CMP)
        if p == "bytes":
            opts += sorted(ri.HASHES) + ["SIZE"]
        if p in ("string", "list", "set", "map"):
            opts += ["SIZE"]
        if p == "pair":
            opts += ["CAR", "CDR", "UNPAIR", "GET0", "GET1", "GET2"]
        if rv.is_packable(t0) and not rv.contains_type(t0, {"lambda"}):
            opts += ["PACK"]
        opts += ["SOME", "LEFT", "RIGHT"]
        if len(ts) >= 2:
            opts += ["PAIR"]
            if ts[1] == T("list", t0):
                opts += ["CONS", "CONS"]
            if ts[0] == ts[1] and rv.is_comparable(t0):
                opts += ["COMPARE", "COMPARE"]
            if (p, ts[1]["prim"]) in ra.BINARY_BY_TYPES and not rv.targs(t0) and not rv.targs(ts[1]):
                opts += ra.BINARY_BY_TYPES[(p, ts[1]["prim"])] * 2
            if ts[1]["prim"] == "lambda" and rv.targs(ts[1])[0] == t0:
                opts += ["EXEC", "EXEC", "EXEC"]
            if ts[1]["prim"] in ("set", "map") and rv.targs(ts[1])[0] == t0:
                opts += ["MEM", "MEM"] + (["GET"] if ts[1]["prim"] == "map" and rv.is_duplicable(rv.targs(ts[1])[1]) else [])
            if p in ("string", "bytes") and ts[1] == t0:
                opts += ["CONCAT"]
        o = self.pick(opts)
        if o in ("LEFT", "RIGHT"):
            return [P(o, self.d(small_type(0)))]
        if o.startswith("GET") and o != "GET":
            return [P("GET", I(int(o[3:])))]
        return [P(o)]

    def c_lambda(self, ts, depth):
        at = self.d(small_type(0))
        body, out = self.block([at], self.d(st.integers(0, 3)), depth - 1)
        if out is None:
            rt = self.d(small_type(0))
        else:
            if not out:
                body += [P("UNIT")]
                out = [T("unit")]
            if len(out) > 1:
                body.append(P("DIP", [P("DROP", I(len(out) - 1))]))
            rt = out[0]
        code = [P("LAMBDA", at, rt, body)]
        k = self.pick(["EXEC", "EXEC", "keep", "APPLY", "APPLY", "APPLY"])
        if k == "EXEC":
            code += [push(at, self.d(gt.values(at))), P("EXEC")]
        elif k == "APPLY":
            a1, a2 = self.d(small_type(self.d(st.integers(0, 2)))), self.d(small_type(0))  # the captured type may be deep
            b2, o2 = self.block([T("pair", a1, a2)], self.d(st.integers(0, 2)), depth - 1)
            if o2 is None:
                r2 = T("unit")
            else:
                if not o2:
                    b2 += [P("UNIT")]
                    o2 = [T("unit")]
                if len(o2) > 1:
                    b2.append(P("DIP", [P("DROP", I(len(o2) - 1))]))
                r2 = o2[0]
            code = [P("LAMBDA", T("pair", a1, a2), r2, b2)]
            keep_orig = self.d(st.booleans())   # the lambda that is applied stays alive next to the result
            if keep_orig:
                code.append(P("DUP"))
            code += [push(a1, self.d(gt.values(a1))), P("APPLY")]
            if self.d(st.integers(0, 2)):
                code += [push(a2, self.d(gt.values(a2))), P("EXEC")]  # otherwise the partially applied lambda stays on the stack
            if keep_orig and self.d(st.booleans()):  # ... and is used afterwards
                code += [P("SWAP"), push(T("pair", a1, a2), self.d(gt.values(T("pair", a1, a2)))), P("EXEC")]
        return code

    def c_oddlambda(self, ts, depth):
        """A lambda whose signature mentions tickets / operations / big maps / contracts is still plain code: it can be duplicated,
        stored in collections and read back, paired, wrapped."""
        lt, bodies = self.pick(gt.ODD_LAMBDAS)
        at, rt = rv.targs(lt)
        code = [P("LAMBDA", at, rt, self.pick(bodies))]
        k = self.pick(["DUP", "DUP", "DUPn", "pairdup", "somedup", "map-get", "map-get", "keep"])
        if k == "DUP":
            code += [P("DUP")]
        elif k == "DUPn":
            code += [push(T("nat"), 1), P("DUP", I(2))]
        elif k == "pairdup":
            code += [push(T("nat"), 7), P("PAIR"), P("DUP"), P("CDR")]
        elif k == "somedup":
            code += [P("SOME"), P("DUP")]
        elif k == "map-get":
            code += [P("EMPTY_MAP", T("nat"), lt), P("SWAP"), P("SOME"), push(T("nat"), 0), P("UPDATE"),
                     P("DUP"), push(T("nat"), self.d(st.integers(0, 1))), P("GET")]
        return code

    def c_loop(self, ts, depth):
        n = self.d(st.integers(0, 3))
        inner = self.preserving(ts, ts, self.d(st.integers(0, 2)), depth)
        if self.d(st.booleans()):
            # int counter: [k] + ts ; body: DIP {inner}; PUSH int -1; ADD; DUP; GT
            body = [P("DIP", inner), push(T("int"), -1), P("ADD"), P("DUP"), P("GT")]
            return [push(T("int"), n), P("DUP"), P("GT"), P("LOOP", body), P("DROP")]
        body = [P("DIP", inner), push(T("int"), -1), P("ADD"), P("DUP"), P("GT"),
                P("IF", [P("LEFT", T("unit"))], [P("DROP"), P("UNIT"), P("RIGHT", T("int"))])]
        return [push(T("int"), max(n, 1)), P("LEFT", T("unit")), P("LOOP_LEFT", body)]  # leaves the Right payload (unit)

    def c_ticket(self, ts, depth):
        opts = ["create", "create"]
        if ts and ts[0]["prim"] == "ticket":
            opts += ["READ", "SPLIT", "SPLIT", "SPLIT", "JOINself", "PAIRUP"] * 2
            if len(ts) >= 2 and ts[1] == ts[0]:
                opts += ["JOIN"] * 8
        if ts and ts[0]["prim"] == "option" and rv.contains_type(ts[0], {"ticket"}):
            opts += ["UNOPT"] * 10
        if ts and ts[0]["prim"] == "pair" and rv.targs(ts[0])[0]["prim"] == "ticket" and rv.targs(ts[0])[0] == rv.targs(ts[0])[1]:
            opts += ["JOINTOP"] * 6 + ["UNPAIR"] * 4
        if ts and rv.contains_type(ts[0], {"ticket"}):
            opts += ["DUPBAD"]
        opts += ["join2", "join2", "splitjoin"]
        o = self.pick(opts)
        unwrap = P("IF_NONE", [push(T("string"), "none"), P("FAILWITH")], [])
        if o == "join2":  # two fresh tickets of one type, equal or different contents, joined
            ct = self.pick([T("nat"), T("string"), T("pair", T("nat"), T("string")), T("option", T("option", T("nat"))), T("bool"),
                            T("or", T("nat"), T("string")), T("pair", T("nat"), T("option", T("option", T("unit")))), T("bytes"),
                            T("option", T("bool")), None, None, None])
            if ct is None:  # any comparable type
                ct = self.d(gt.comparable_types(2, ["int", "nat", "string", "bytes", "bool", "unit", "address", "key_hash", "mutez"]))
            c1 = self.d(gt.values(ct))
            c2 = c1 if self.d(st.booleans()) else self.d(gt.near(ct, c1))
            a1, a2 = self.d(st.integers(1, 9)), self.d(st.integers(1, 9))
            route = self.pick(["push", "push", "dup", "built"]) if c1 == c2 else "push"
            if route == "dup":      # one contents value, duplicated, used for both tickets
                return [push(ct, c1), P("DUP"), push(T("nat"), a1), P("SWAP"), P("TICKET"), unwrap, P("SWAP"),
                        push(T("nat"), a2), P("SWAP"), P("TICKET"), unwrap, P("PAIR"), P("JOIN_TICKETS")]
            second = [push(ct, c2)]
            if route == "built":    # the second contents value is assembled by instructions instead of being pushed as a literal
                a = rv.targs(ct)
                if ct["prim"] == "or":
                    i = 0 if c2[0] == "Left" else 1
                    second = [push(a[i], c2[1]), P("LEFT" if i == 0 else "RIGHT", a[1 - i])]
                elif ct["prim"] == "option":
                    second = [P("NONE", a[0])] if c2 is None else [push(a[0], c2[1]), P("SOME")]
                elif ct["prim"] == "pair":
                    second = [push(a[1], c2[1]), push(a[0], c2[0]), P("PAIR")]
            return [push(T("nat"), a1), push(ct, c1), P("TICKET"), unwrap, push(T("nat"), a2)] + second + [P("TICKET"), unwrap,
                                                                                                         P("PAIR"), P("JOIN_TICKETS")]
        if o == "splitjoin":
            ct = self.pick([T("nat"), T("unit")])
            amt = self.d(st.integers(2, 12))
            x = self.d(st.integers(0, amt))
            y = amt - x + self.d(st.sampled_from([0, 0, 0, 1]))
            return [push(T("nat"), amt), push(ct, self.d(gt.values(ct))), P("TICKET"), unwrap,
                    push(T("pair", T("nat"), T("nat")), (x, y)), P("SWAP"), P("SPLIT_TICKET"), unwrap, P("JOIN_TICKETS")]
        if o == "create":
            ct = self.pick([T("nat"), T("string"), T("pair", T("nat"), T("string")), T("unit")])
            amt = self.d(st.sampled_from([0, 1, 2, 5, 2 ** 63, 10, 10, 5, 4, 3]))
            same = ts and ts[0]["prim"] == "ticket" and self.d(st.booleans())
            if same:
                ct = rv.targs(ts[0])[0]
            content = self.d(gt.values(ct)) if not same or self.d(st.booleans()) else self.d(gt.values(ct))
            if ct == T("nat"):
                content = self.d(st.integers(0, 2))
            code = [push(T("nat"), amt), push(ct, content), P("TICKET")]
            if self.d(st.integers(0, 3)):  # usual contract idiom: unwrap or fail
                code.append(P("IF_NONE", [push(T("string"), "zero ticket"), P("FAILWITH")], []))
            return code
        if o == "READ":
            return [P("READ_TICKET")] + ([P("DROP")] if self.d(st.booleans()) else [])
        if o == "SPLIT":
            a = self.d(st.sampled_from([0, 1, 2, 3, 4, 5, 9, 10]))
            b = self.d(st.sampled_from([0, 1, 2, 3, 4, 5, 9, 10]))
            return [push(T("pair", T("nat"), T("nat")), (a, b)), P("SWAP"), P("SPLIT_TICKET")]
        if o == "JOIN":
            return [P("PAIR"), P("JOIN_TICKETS")]
        if o == "JOINTOP":
            return [P("JOIN_TICKETS")]
        if o == "UNPAIR":
            return [P("UNPAIR")]
        if o == "PAIRUP" and len(ts) >= 2:
            return [P("PAIR")]
        if o == "UNOPT":
            inner = rv.targs(ts[0])[0]
            # IF_NONE { <rebuild nothing: leave stack without the value> } { keep the value }: branches must agree, so
            # the None branch fails (that is what contracts do) or both drop
            if self.d(st.booleans()):
                return [P("IF_NONE", [push(T("string"), "none"), P("FAILWITH")], [])]
            return [P("IF_NONE", [], [P("DROP")])]
        if o == "DUPBAD":
            return [P("DROP")]  # (DUP of a ticket is ill-typed; checked separately as a negative case)
        return [P("READ_TICKET"), P("DROP")]


ra.UNARY_BY_TYPE = {}
for _op, _tb in ra.UNARY.items():
    for _t in _tb:
        ra.UNARY_BY_TYPE.setdefault(_t, []).append(_op)
ra.BINARY_BY_TYPES = {}
for _op, _tb in ra.BINARY.items():
    for _k in _tb:
        ra.BINARY_BY_TYPES.setdefault(_k, []).append(_op)


ALL_KINDS = ["push", "stack", "arith", "compare", "comb", "combpush", "fieldflow", "option_or", "list", "setmap", "strbytes", "env",
             "usetop", "pack", "ticket", "if", "lambda", "lambdarec", "loop", "iter", "dip", "dipstack", "ifnone", "build", "noop", "oddlambda", "mapconv"]


@st.composite
def programs(draw, n_inputs=(0, 3), size=(1, 8), depth=2, profile="core", keep_lambdas=False, force=None):
    """Returns dict(inputs=[(type, value)...] top first, code=[...]). force: chunk kinds of the first chunks."""
    g = Gen(draw, profile, depth)
    g.forced = list(force or [])
    k = draw(st.integers(*n_inputs))
    inputs = []
    for _ in range(k):
        t = draw(small_type(draw(st.integers(0, 1))))
        inputs.append((t, draw(gt.values(t))))
    code, out = g.block([t for t, _ in inputs], draw(st.integers(*size)), depth)
    # lambdas cannot be compared literally: drop every remaining slot whose type contains a lambda
    if out is not None and not keep_lambdas:
        for i in reversed(range(len(out))):
            if rv.contains_type(out[i], {"lambda"}):
                code.append(P("DIG", I(i)))
                code.append(P("DROP"))
    return {"inputs": [{"t": t, "v": rv.to_micheline(t, v)} for t, v in inputs], "code": code, "chunks": sorted(g.used)}


def instr_names(code, acc=None):
    acc = set() if acc is None else acc
    if isinstance(code, list):
        for c in code:
            instr_names(c, acc)
    elif isinstance(code, dict) and "prim" in code and code["prim"].isupper():
        acc.add(code["prim"])
        for a in code.get("args", []):
            if isinstance(a, list):
                instr_names(a, acc)
    return acc


def env_strategy():
    return st.fixed_dictionaries({
        "amount": gt.mutez(), "balance": gt.mutez(), "sender": gt.addresses(with_ep=False), "source": gt.addresses(kinds=(0,), with_ep=False),
        "now": gt.timestamps(), "level": st.one_of(st.sampled_from([0, 1, 2 ** 30 - 1, 2 ** 30, 2 ** 31 - 1, 2 ** 31]), st.integers(0, 2 ** 31)),
        "chain_id": gt.chain_ids(),
        "self_address": gt.addresses(kinds=(1,), with_ep=False), "min_block_time": st.integers(1, 60)})
