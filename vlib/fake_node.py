"""In-memory Tezos node behind pytezos' RpcNode interface (C15, C24, C25). Records every request."""
from __future__ import annotations

import json
from typing import Any, Callable, Dict, List, Optional


class FakeNode:
    """Duck-typed RpcNode: get/post/put/delete(path, ...) -> JSON. Unknown paths raise (harness error)."""

    def __init__(self):
        from pytezos.rpc.node import RpcNode
        self.uri = ["http://fake:8732"]
        self.headers = {}
        self.calls: List[tuple] = []
        self.big_maps: Dict[int, Dict[str, Any]] = {}   # id -> {key_hash: value Micheline}
        self.chain_id = "NetXdQprcVkpaWU"
        self.protocol = "PtTALLiNtPec7mE7yY4m3k26J8Qukef3E3ehzhfXgFZKGtDdAXu"
        self.head_hash = "BLockGenesisGenesisGenesisGenesisGenesisf79b5d1CoW2"
        self.level = 100
        self.counters: Dict[str, int] = {}
        self.balances: Dict[str, int] = {}
        self.mempool: List[dict] = []                    # applied pending operations (json)
        self.constants = {"hard_gas_limit_per_operation": "1040000", "hard_storage_limit_per_operation": "60000",
                          "cost_per_byte": "250", "origination_size": 257, "minimal_block_delay": "8",
                          "hard_gas_limit_per_block": "1386666"}
        self.history: Dict[int, Dict[str, int]] = {}     # level -> account counters as of that block (recorded by the harness)
        self.scripts: Dict[str, dict] = {}               # KT1 -> {"code": [...], "storage": ...}
        self.run_operation_handler: Optional[Callable[[dict], dict]] = None
        self.inject_handler: Optional[Callable[[bytes], str]] = None
        self._rpc_error = None

    # -- RpcNode interface --------------------------------------------------------------------------
    def request(self, method, path, **kwargs):
        raise NotImplementedError("raw request not used")

    def _err(self, msg):
        from pytezos.rpc.node import RpcError
        return RpcError(msg)

    def get(self, path, params=None, timeout=None):
        path = "/" + path.strip("/")
        self.calls.append(("GET", path))
        parts = path.strip("/").split("/")
        if path == "/version":
            return {"network_version": {"chain_name": "TEZOS_FAKE_SANDBOXED" if False else "TEZOS_FAKENET"}}
        if path == "/chains/main/chain_id":
            return self.chain_id
        if path.startswith("/chains/main/mempool/pending_operations"):
            if getattr(self, "mempool_down", False):   # e.g. a public gateway that does not expose the mempool
                raise self._err({"kind": "permanent", "id": "node.mempool.not_exposed"})
            return {"applied": list(self.mempool), "refused": [], "outdated": [], "branch_refused": [],
                    "branch_delayed": [], "unprocessed": [], "validated": list(self.mempool)}
        if len(parts) >= 4 and parts[:3] == ["chains", "main", "blocks"]:
            rest = parts[4:]
            if rest == ["hash"]:
                return self.head_hash
            if rest == ["header"]:
                return {"hash": self.head_hash, "level": self.level, "protocol": self.protocol, "chain_id": self.chain_id,
                        "timestamp": "2024-01-01T00:00:00Z", "predecessor": self.head_hash}
            if rest == []:
                return {"hash": self.head_hash, "protocol": self.protocol, "chain_id": self.chain_id,
                        "header": {"level": self.level, "timestamp": "2024-01-01T00:00:00Z"}}
            if rest == ["context", "constants"]:
                return dict(self.constants)
            if len(rest) == 4 and rest[:2] == ["context", "big_maps"]:
                bm = self.big_maps.get(int(rest[2]), {})
                if rest[3] in bm:
                    return bm[rest[3]]
                raise self._err("Not found: %s" % path)
            if len(rest) >= 3 and rest[:2] == ["context", "contracts"]:
                addr = rest[2]
                counters = self.counters
                if parts[3].isdigit() and int(parts[3]) in self.history:   # a past block: the state as of that block
                    counters = self.history[int(parts[3])]
                if addr in self.scripts:
                    if len(rest) == 3:
                        return {"balance": "0", "script": self.scripts[addr]}
                    if rest[3] == "script":
                        return self.scripts[addr]
                    if rest[3] == "storage":
                        return self.scripts[addr]["storage"]
                if len(rest) == 3:
                    return {"balance": str(self.balances.get(addr, 10 ** 12)), "counter": str(counters.get(addr, 0))}
                if rest[3] == "counter":
                    return str(counters.get(addr, 0))
                if rest[3] == "balance":
                    return str(self.balances.get(addr, 10 ** 12))
                if rest[3] == "manager_key":
                    return None
        raise AssertionError("FakeNode: unhandled GET %s" % path)

    def post(self, path, params=None, json=None, timeout=None):
        path = "/" + path.strip("/")
        self.calls.append(("POST", path, json))
        if path.endswith("/helpers/scripts/run_operation"):
            assert self.run_operation_handler, "run_operation not scripted"
            return self.run_operation_handler(json)
        if path == "/injection/operation":
            assert self.inject_handler, "injection not scripted"
            return self.inject_handler(bytes.fromhex(json))
        raise AssertionError("FakeNode: unhandled POST %s" % path)

    def put(self, *a, **k):
        raise AssertionError("FakeNode: PUT not supported")

    def delete(self, *a, **k):
        raise AssertionError("FakeNode: DELETE not supported")


def shell(node):
    from pytezos.rpc.shell import ShellQuery
    return ShellQuery(node)
