"""Hypothesis strategies for untyped Micheline trees and for byte-level mutations of encodings."""
from __future__ import annotations

from hypothesis import strategies as st

from vlib import ref_micheline as rm

PROTOCOL_PRIMS = [p for i, p in enumerate(rm.PRIMS) if i not in rm.UNASSERTED_TAGS]


def big_ints():
    """Zarith boundaries: 2^(6+7k) +- 1, byte boundaries, both signs, up to 4096 bits."""
    k = st.integers(0, 40)
    return st.one_of(
        st.sampled_from([0, 1, -1, 63, 64, -63, -64, 127, 128, 8191, 8192, -8192, 2 ** 63 - 1, 2 ** 63, 2 ** 64]),
        st.builds(lambda k, d, s: s * (2 ** (6 + 7 * k) + d), k, st.sampled_from([-1, 0, 1]), st.sampled_from([1, -1])),
        st.builds(lambda k, d, s: s * (2 ** (8 * k) + d), st.integers(1, 64), st.sampled_from([-1, 0, 1]),
                  st.sampled_from([1, -1])),
        st.integers(-2 ** 70, 2 ** 70),
        st.builds(lambda bits, v, s: s * (v % (2 ** bits)), st.integers(64, 4096), st.integers(0, 2 ** 4096),
                  st.sampled_from([1, -1])),
    )


_ANN_BODY = st.text(alphabet="abcxyzABZ019_.%@", min_size=0, max_size=8)


def annot():
    """Annotations per the Tezos grammar: [:@%] followed by [_0-9a-zA-Z][_0-9a-zA-Z.%@]* (or special forms)."""
    first = st.sampled_from("abcXYZ_09")
    return st.one_of(
        st.builds(lambda p, f, b: p + f + b, st.sampled_from("%:@"), first, _ANN_BODY),
        st.sampled_from(["%", "%%", "@%", "@%%", ":", "@", "%default", "%root", "%a", ":t", "@v", "%a%b", "%a.b"]),
    )


def annots_simple():
    """Annotations without inner %/@ (safe for the text lexer)."""
    first = st.sampled_from("abcXYZ_09")
    body = st.text(alphabet="abcxyzABZ019_.", min_size=0, max_size=8)
    return st.one_of(st.builds(lambda p, f, b: p + f + b, st.sampled_from("%:@"), first, body),
                     st.sampled_from(["%default", "%root", "%a", ":t", "@v", "%a.b"]))


def strings(ascii_only=False):
    base = st.text(alphabet=st.characters(min_codepoint=32, max_codepoint=126), max_size=12)
    special = st.sampled_from(["", "\n", "\"", "\\", "a\"b", "a\\nb", "#", "/*", "tab\there", "é", "日本", " "])
    if ascii_only:
        return st.one_of(base, st.sampled_from(["", "\n", "\"", "\\", "a\"b", "a\\nb", "#", "/* x */"]))
    return st.one_of(base, special, st.text(max_size=8))


def hexbytes():
    return st.one_of(st.binary(max_size=12), st.sampled_from([b"", b"\x00", b"\xff" * 33])).map(lambda b: b.hex())


def leaves():
    return st.one_of(
        big_ints().map(lambda v: {"int": str(v)}),
        strings().map(lambda s: {"string": s}),
        hexbytes().map(lambda h: {"bytes": h}),
        st.sampled_from(PROTOCOL_PRIMS).map(lambda p: {"prim": p}),
    )


def trees(max_leaves=30, prims=None, ann=None):
    prims = prims or PROTOCOL_PRIMS
    ann = ann or annot()

    def extend(children):
        prim = st.builds(
            lambda p, args, an: _mk(p, args, an),
            st.sampled_from(prims), st.lists(children, min_size=0, max_size=4),
            st.one_of(st.just([]), st.just([]), st.lists(ann, min_size=1, max_size=3)))
        seq = st.lists(children, min_size=0, max_size=4)
        return st.one_of(prim, prim, seq)

    return st.recursive(leaves(), extend, max_leaves=max_leaves)


def _mk(p, args, an):
    e = {"prim": p}
    if args:
        e["args"] = args
    if an:
        e["annots"] = an
    return e


def size(e):
    if isinstance(e, list):
        return 1 + sum(size(x) for x in e)
    if isinstance(e, dict) and "prim" in e:
        return 1 + sum(size(x) for x in e.get("args", []))
    return 1


def depth(e):
    if isinstance(e, list):
        return 1 + max([depth(x) for x in e], default=0)
    if isinstance(e, dict) and "prim" in e:
        return 1 + max([depth(x) for x in e.get("args", [])], default=0)
    return 0


@st.composite
def mutate_bytes(draw, data: bytes):
    """Truncation, extension, byte mutation, length-prefix edits, Zarith padding."""
    kind = draw(st.sampled_from(["trunc", "extend", "flip", "set", "len", "zpad", "insert", "delete", "tag",
                                 "primtag"]))
    b = bytearray(data)
    if kind == "primtag":
        idx = [i for i in range(len(b) - 1) if 3 <= b[i] <= 9]
        if idx:
            i = draw(st.sampled_from(idx))
            b[i + 1] = draw(st.sampled_from([0x9F, 0xA0, 0xEE, 0xFF, 0xED, 0xEF, 0x9E, 0x1C, 0x4A]))
            return kind, bytes(b)
    if kind == "trunc" and len(b) > 1:
        return kind, bytes(b[:draw(st.integers(1, len(b) - 1))])
    if kind == "extend":
        return kind, bytes(b) + draw(st.binary(min_size=1, max_size=4))
    if kind == "flip" and b:
        i = draw(st.integers(0, len(b) - 1))
        b[i] ^= 1 << draw(st.integers(0, 7))
        return kind, bytes(b)
    if kind == "set" and b:
        i = draw(st.integers(0, len(b) - 1))
        b[i] = draw(st.sampled_from([0, 1, 2, 9, 10, 11, 0x80, 0x9e, 0x9f, 0xee, 0xff]))
        return kind, bytes(b)
    if kind == "len" and len(b) >= 5:
        # find a plausible 4-byte length prefix (three zero bytes in a row) and nudge it
        idx = [i for i in range(len(b) - 3) if b[i] == 0 and b[i + 1] == 0 and b[i + 2] == 0]
        if idx:
            i = draw(st.sampled_from(idx))
            b[i + 3] = (b[i + 3] + draw(st.sampled_from([1, -1, 2, 5, 255]))) % 256
            return kind, bytes(b)
    if kind == "zpad":
        # turn the final byte of some zarith run into a continuation followed by 0x00
        idx = [i for i in range(1, len(b)) if b[i - 1] == 0 and not (b[i] & 0x80)]
        idx = idx or [i for i in range(len(b)) if not (b[i] & 0x80)]
        if idx:
            i = draw(st.sampled_from(idx))
            return kind, bytes(b[:i]) + bytes([b[i] | 0x80, 0x00]) + bytes(b[i + 1:])
    if kind == "insert":
        i = draw(st.integers(0, len(b)))
        return kind, bytes(b[:i]) + draw(st.binary(min_size=1, max_size=2)) + bytes(b[i:])
    if kind == "delete" and len(b) > 1:
        i = draw(st.integers(0, len(b) - 1))
        return kind, bytes(b[:i]) + bytes(b[i + 1:])
    if b:
        b[0] = draw(st.integers(0, 255))
    return "tag", bytes(b)
