"""Run a generated program through pytezos and through the reference interpreter and compare (C01, C02, C17, C20)."""
from __future__ import annotations

from vlib import interp
from vlib import ref_interp as ri
from vlib import ref_values as rv
from vlib.harness import Violation


def ref_env(env):
    return dict(env)


def pytezos_context(env):
    e = env
    return interp.new_context(amount=e["amount"], balance=e["balance"], sender=rv.addr_str(e["sender"]),
                              source=rv.addr_str(e["source"]), now=e["now"], level=e["level"],
                              chain_id=_chain(e["chain_id"]), address=rv.addr_str(e["self_address"]),
                              min_block_time=e["min_block_time"])


def _chain(b):
    from vlib import ref_crypto as rc
    return rc.tz_encode(b, "Net")


def env_from_json(j):
    e = dict(j)
    for k in ("sender", "source", "self_address"):
        e[k] = (bytes.fromhex(j[k][0]), j[k][1])
    e["chain_id"] = bytes.fromhex(j["chain_id"])
    return e


def env_to_json(e):
    j = dict(e)
    for k in ("sender", "source", "self_address"):
        j[k] = [e[k][0].hex(), e[k][1]]
    j["chain_id"] = e["chain_id"].hex()
    return j


def prelude(inputs):
    return [interp.push(i["t"], i["v"]) for i in reversed(inputs)]


LAST_TRACE = []


def run_reference(inputs, code, env, fuel=50000):
    """-> ("ok", [(t, v)...]) | ("failwith", t, v) | ("fail", msg) | ("budget",) ; raises IllTyped on generator bugs."""
    m = ri.Machine(env=ref_env(env), concrete=True, fuel=fuel)
    st = [(i["t"], rv.from_micheline(i["t"], i["v"])) for i in inputs]
    LAST_TRACE[:] = m.trace
    try:
        out = m.run(code, st)
        LAST_TRACE[:] = m.trace
        return ("ok", out)
    except ri.Failed as f:
        LAST_TRACE[:] = m.trace
        return ("failwith", f.t, f.v)
    except ri.RuntimeFail as e:
        return ("fail", str(e))
    except ri.Budget:
        return ("budget",)


def run_pytezos(inputs, code, env):
    """-> (stack items list | None, error | None)."""
    ctx = pytezos_context(env)
    stk, out, err = interp.run(prelude(inputs) + code, context=ctx)
    return (stk.items if err is None else None), err


FAILING_CELLS = [
    "UNIT ; FAILWITH",
    "PUSH nat 1 ; PUSH nat 2 ; DIP { UNIT ; FAILWITH }",
    "PUSH nat 1 ; PUSH nat 2 ; PUSH nat 3 ; DIP 2 { PUSH int 1 ; PUSH string \"a\" ; ADD }",
    "PUSH nat 1 ; PUSH nat 2 ; DIP { DIP { UNIT ; FAILWITH } }",
    "PUSH nat 1 ; PUSH nat 2 ; DIP { PUSH mutez 9223372036854775807 ; PUSH mutez 1 ; ADD }",
    "PUSH (list nat) { 1 } ; PUSH nat 0 ; DIP { ITER { FAILWITH } }",
    "PUSH nat 1 ; PUSH bool True ; DIP { PUSH bool True ; IF { UNIT ; FAILWITH } { } }",
    "PUSH nat 1 ; PUSH nat 2 ; DIG 5",
    "PUSH nat 1 ; DROP 3",
    "LAMBDA unit unit { FAILWITH } ; PUSH nat 4 ; DIP { UNIT ; EXEC }",
]


def run_pytezos_session(inputs, code, env, cells):
    """The documented REPL route: one Interpreter, first the failing cells (each must report an error), then the program as
    text. Returns (items | None, error | None), or ("skip", reason) when the route cannot be used for this program."""
    from pytezos.michelson.format import micheline_to_michelson
    from pytezos.michelson.parse import michelson_to_micheline
    from pytezos.michelson.repl import Interpreter
    full = prelude(inputs) + code
    try:
        text = micheline_to_michelson(full, inline=True)
        if michelson_to_micheline(text) != full:
            return "skip", "format-parse-interference"  # C18's subject
    except Exception as e:
        return "skip", "format-raise:%s" % type(e).__name__
    it = Interpreter()
    it.context = pytezos_context(env)
    for cell in cells:
        r = it.execute(cell)
        if r.error is None:
            return "skip", "prelude-did-not-fail"
    r = it.execute(text)
    return (list(it.stack.items) if r.error is None else None), r.error


def failwith_repr(t, v):
    """pytezos exposes the FAILWITH payload only as repr(value)."""
    from pytezos.michelson.types.base import MichelsonType
    import pytezos.michelson.types  # noqa: F401
    return repr(MichelsonType.match(t).from_micheline_value(ri.value_to_micheline(t, v, "readable")))


def slot_equal(t, v, item, case, what):
    ty, m = interp.read_item(item)
    if ty != t:
        return "type %s, reference type %s" % (ty, t)
    if rv.contains_type(t, {"ticket"}):
        want = ri.value_to_micheline(t, v, "optimized")
        if m != want:
            return "value %s, reference %s" % (m, want)
        return None
    got = interp.parse_output(t, m, what)
    if got != v:
        return "value %s, reference %s" % (m, rv.to_micheline(t, v, "optimized"))
    return None


def compare_runs(inputs, code, env, case, label="program"):
    """Differential oracle of C01. Returns (kind, ref_result) ; raises Violation."""
    try:
        return _compare_runs(inputs, code, env, case, label)
    except Violation as v:
        if "MAP-empty-type-change" in LAST_TRACE:
            v.sig = "known:map-empty-type-change"
            raise
        if has_prim(code, "LAMBDA_REC"):
            # known finding: pytezos runs a recursive lambda's body on `lambda : arg`, Michelson on `arg : lambda`. If pytezos
            # agrees with the reference once every LAMBDA_REC body is prefixed with SWAP, the disagreement is exactly that.
            try:
                _compare_runs(inputs, code, env, case, label, pytezos_code=swap_rec_bodies(code))
            except Violation:
                raise v
            v.sig = "known:lambda-rec-stack-order"
        raise


def has_prim(code, prim):
    if isinstance(code, list):
        return any(has_prim(c, prim) for c in code)
    if isinstance(code, dict):
        return code.get("prim") == prim or any(has_prim(a, prim) for a in code.get("args", []))
    return False


def swap_rec_bodies(code):
    if isinstance(code, list):
        return [swap_rec_bodies(c) for c in code]
    if isinstance(code, dict) and "prim" in code:
        out = dict(code)
        if code.get("args"):
            out["args"] = [swap_rec_bodies(a) for a in code["args"]]
            if code["prim"] == "LAMBDA_REC":
                out["args"][2] = [{"prim": "SWAP"}] + out["args"][2]
        return out
    return code


def _compare_runs(inputs, code, env, case, label="program", pytezos_code=None):
    ref = run_reference(inputs, code, env)
    if ref[0] == "budget":
        return "budget", ref
    if case.get("session") is not None:
        items, err = run_pytezos_session(inputs, code if pytezos_code is None else pytezos_code, env, case["session"])
        if items == "skip":
            return "session-skip:" + err, ref
        label = "program run after %d failing REPL cell(s)" % len(case["session"])
    else:
        items, err = run_pytezos(inputs, code if pytezos_code is None else pytezos_code, env)
    if ref[0] == "ok":
        if err is not None:
            raise Violation("%s fails in pytezos (%r) but the Michelson semantics gives a stack of %d: %s" % (
                label, err.args, len(ref[1]), _short(code)), case, "unexpected-failure:" + _instr_of(err))
        if len(items) != len(ref[1]):
            raise Violation("%s ends with %d items, reference %d: %s" % (label, len(items), len(ref[1]), _short(code)), case,
                            "stack-depth")
        for i, ((t, v), item) in enumerate(zip(ref[1], items)):
            diff = slot_equal(t, v, item, case, "slot %d" % i)
            if diff:
                raise Violation("%s: stack slot %d has %s; code %s" % (label, i, diff, _short(code)), case,
                                "slot-mismatch:" + ("type" if diff.startswith("type") else "value"))
        return "ok", ref
    if err is None:
        raise Violation("%s must fail (%s) but pytezos returned a stack: %s" % (label, ref[0:1] + ref[2:], _short(code)), case,
                        "missing-failure:" + ref[0])
    is_fw = len(err.args) >= 2 and err.args[-2] == "FAILWITH"  # enclosing instructions prefix their names
    if ref[0] == "failwith":
        if not is_fw:
            raise Violation("%s: reference reaches FAILWITH, pytezos fails with %r: %s" % (label, err.args, _short(code)), case,
                            "other-failure-instead-of-failwith:" + _instr_of(err))
        want = failwith_repr(ref[1], ref[2])
        if err.args[-1] != want:
            raise Violation("%s: FAILWITH payload %r, reference %r" % (label, err.args[-1], want), case, "failwith-payload")
    elif is_fw:
        raise Violation("%s: pytezos reaches FAILWITH (%r) but the reference fails with %s" % (label, err.args, ref[1]), case,
                        "failwith-instead-of-runtime-failure")
    return ref[0], ref


def _instr_of(err):
    for a in err.args:
        if isinstance(a, str) and a.isupper():
            return a
    return "?"


def _short(code):
    s = str(code)
    return s if len(s) < 700 else s[:700] + "…"


def deep_type_errors(item, path="top"):
    """C02: every component instance's class agrees with its parent's type argument (annotations ignored)."""
    from vlib.interp import strip_annots
    errs = []
    cls = type(item)

    def same(a, b):
        return strip_annots(a.as_micheline_expr()) == strip_annots(type(b).as_micheline_expr())
    prim = getattr(cls, "prim", None)
    try:
        if prim == "pair":
            for i, sub in enumerate(item.items):
                if not same(cls.args[i], sub):
                    errs.append("%s.%d: declared %s, holds %s" % (path, i, cls.args[i].as_micheline_expr(), type(sub).as_micheline_expr()))
                errs += deep_type_errors(sub, "%s.%d" % (path, i))
        elif prim == "option":
            if item.item is not None:
                if not same(cls.args[0], item.item):
                    errs.append("%s?: declared %s, holds %s" % (path, cls.args[0].as_micheline_expr(), type(item.item).as_micheline_expr()))
                errs += deep_type_errors(item.item, path + "?")
        elif prim == "or":
            for i, sub in enumerate(item.items):
                if hasattr(sub, "prim") and type(sub).__name__ != "undefined":
                    if not same(cls.args[i], sub):
                        errs.append("%s|%d: declared %s, holds %s" % (path, i, cls.args[i].as_micheline_expr(), type(sub).as_micheline_expr()))
                    errs += deep_type_errors(sub, "%s|%d" % (path, i))
        elif prim in ("list", "set"):
            for i, sub in enumerate(item.items):
                if not same(cls.args[0], sub):
                    errs.append("%s[%d]: declared %s, holds %s" % (path, i, cls.args[0].as_micheline_expr(), type(sub).as_micheline_expr()))
                errs += deep_type_errors(sub, "%s[%d]" % (path, i))
        elif prim == "map":
            for i, (k, v) in enumerate(item.items):
                if not same(cls.args[0], k):
                    errs.append("%s{k%d}: declared %s, holds %s" % (path, i, cls.args[0].as_micheline_expr(), type(k).as_micheline_expr()))
                if not same(cls.args[1], v):
                    errs.append("%s{v%d}: declared %s, holds %s" % (path, i, cls.args[1].as_micheline_expr(), type(v).as_micheline_expr()))
                errs += deep_type_errors(v, "%s{v%d}" % (path, i))
        elif prim == "ticket":
            if not cls.args:
                errs.append("%s: ticket value of the un-parameterised class `ticket`" % path)
            elif not same(cls.args[0], item.item):
                errs.append("%s: ticket declared %s, holds %s" % (path, cls.args[0].as_micheline_expr(), type(item.item).as_micheline_expr()))
    except Exception as e:
        errs.append("%s: cannot inspect (%r)" % (path, e))
    return errs
