"""Secret key strategies per curve (valid scalars only)."""
from hypothesis import strategies as st

from vlib import ref_crypto as rc

CURVES = ["ed", "sp", "p2", "BL"]
ORDER = {"sp": rc.SECP256K1_N, "p2": rc.P256_N, "BL": rc.BLS_R}


def secret(curve):
    """32-byte secret in the encoding pytezos documents for the curve."""
    if curve == "ed":
        return st.one_of(st.binary(min_size=32, max_size=32), st.sampled_from([b"\x00" * 32, b"\xff" * 32]))
    n = ORDER[curve]
    scal = st.one_of(st.sampled_from([1, 2, n - 1, n - 2, 2 ** 255 % n or 1, 2 ** 128, 2 ** 248 + 1]),
                     st.integers(1, n - 1), st.integers(1, 2 ** 64))
    order = "little" if curve == "BL" else "big"
    return scal.map(lambda v: (v % n or 1).to_bytes(32, order))


def curve_and_secret(curves=CURVES):
    return st.sampled_from(curves).flatmap(lambda c: secret(c).map(lambda s: (c, s)))
