"""Thin driver around pytezos' interpreter: run Micheline code directly (no text round trip) and read the stack in
a neutral space (annotation-stripped type expression + optimized Micheline value)."""
from __future__ import annotations


def strip_annots(t):
    if isinstance(t, list):
        return [strip_annots(x) for x in t]
    if isinstance(t, dict) and "prim" in t:
        out = {"prim": t["prim"]}
        if t.get("args"):
            out["args"] = [strip_annots(a) for a in t["args"]]
        return out
    return t


def read_item(item, mode="optimized"):
    """(annotation-stripped type, Micheline value). A value pytezos itself cannot render is reported as a violation
    of whatever property is being checked (the result is unusable), not as a harness error."""
    from vlib.harness import Violation
    try:
        return strip_annots(type(item).as_micheline_expr()), item.to_micheline_value(mode=mode)
    except Exception as e:
        raise Violation("stack value of type %s cannot be rendered as %s Micheline: %r"
                        % (getattr(type(item), "prim", "?"), mode, e), None, "render-raise:%s" % type(e).__name__)


def new_context(**kw):
    from pytezos.context.impl import ExecutionContext
    return ExecutionContext(**kw)


def run(code, stack=None, context=None):
    """Executes a Micheline instruction sequence. Returns (stack_object, stdout, error or None)."""
    import pytezos.michelson.instructions  # noqa: F401
    import pytezos.michelson.types  # noqa: F401
    from pytezos.michelson.micheline import MichelsonRuntimeError
    from pytezos.michelson.sections import CodeSection
    from pytezos.michelson.stack import MichelsonStack
    st = stack if stack is not None else MichelsonStack()
    ctx = context if context is not None else new_context()
    out = []
    try:
        CodeSection.match(code).args[0].execute(st, out, ctx)
        return st, out, None
    except MichelsonRuntimeError as e:
        return st, out, e


def push(type_expr, value_expr):
    return {"prim": "PUSH", "args": [type_expr, value_expr]}


def parse_output(t, micheline, what="value"):
    """Reference-parse Micheline produced by pytezos; a spelling Tezos would not accept is a violation."""
    from vlib import ref_values as rv
    from vlib.harness import Violation
    try:
        return rv.from_micheline(t, micheline)
    except rv.Malformed as e:
        raise Violation("%s rendered by pytezos is not a well-formed Tezos value of its type: %s (%s)"
                        % (what, micheline, e), None, "malformed-output:" + t["prim"])
