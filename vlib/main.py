import importlib
import os
import sys


def main(argv):
    if len(argv) < 2:
        print("usage: check <ID> <quick|thorough> | check <ID> --replay <file>", file=sys.stderr)
        return 2
    pid = argv[0].upper()
    from vlib import harness
    mod = importlib.import_module("checks." + pid.lower())
    if argv[1] == "--replay":
        return harness.main_replay(mod, argv[2])
    tier = argv[1]
    if tier not in ("quick", "thorough"):
        print("tier must be quick or thorough", file=sys.stderr)
        return 2
    os.environ["VERIF_TIER"] = tier
    seed = int(os.environ.get("VERIF_SEED", "1") or "1")
    return harness.main_run(mod, tier, seed)


if __name__ == "__main__":
    sys.exit(main(sys.argv[1:]))
