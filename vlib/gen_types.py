"""Hypothesis strategies for Michelson types and typed values (reference representation of vlib.ref_values)."""
from __future__ import annotations

import functools

from hypothesis import strategies as st

from vlib import ref_crypto as rc
from vlib import ref_values as rv
from vlib.ref_values import T

COMPARABLE_LEAVES = ["int", "nat", "string", "bytes", "mutez", "bool", "unit", "key_hash", "key", "signature",
                     "timestamp", "address", "chain_id"]
OTHER_LEAVES = ["bls12_381_fr", "bls12_381_g1", "bls12_381_g2"]


# ---- leaf values ----------------------------------------------------------------------------------
def ints(signed=True, max_bits=4096):
    k = st.integers(0, 40)
    pos = st.one_of(
        st.sampled_from([0, 1, 2, 63, 64, 127, 128, 255, 256, 2 ** 31, 2 ** 63 - 1, 2 ** 63, 2 ** 64]),
        st.builds(lambda k, d: max(0, 2 ** (6 + 7 * k) + d), k, st.sampled_from([-1, 0, 1])),
        st.builds(lambda k, d: max(0, 2 ** (8 * k) + d), st.integers(1, 40), st.sampled_from([-1, 0, 1])),
        st.builds(lambda k: 2 ** (8 * k - 1), st.integers(1, 40)),
        st.integers(0, 1000),
        st.builds(lambda bits, v: v % (2 ** bits), st.integers(64, max_bits), st.integers(0, 2 ** max_bits)),
    )
    if not signed:
        return pos
    return st.builds(lambda v, s: s * v, pos, st.sampled_from([1, 1, -1]))


def mutez():
    return st.one_of(st.sampled_from([0, 1, 2 ** 63 - 1, 2 ** 62, 10 ** 6]), st.integers(0, 2 ** 63 - 1),
                     st.integers(0, 10 ** 7))


YEAR = 31556952
TS_EDGES = [-62135596800, -30610224000, 253402300799, -62167219200, 0, 2 ** 31 - 1, 2 ** 31, -2 ** 31, 2 ** 63]


def timestamps():
    return st.one_of(
        st.builds(lambda e, d: e + d, st.sampled_from(TS_EDGES), st.integers(-2, 2)),
        st.integers(0, 4102444800), st.integers(-10 ** 11, 3 * 10 ** 11), st.integers(-2 ** 70, 2 ** 70))


def mstrings():
    return st.one_of(st.text(alphabet=st.characters(min_codepoint=32, max_codepoint=126), max_size=10),
                     st.sampled_from(["", "a", "b", "aa", "ab", "A", "\n", "\"", "\\", "a\nb", "hello world"]))


def mbytes():
    return st.one_of(st.binary(max_size=10), st.sampled_from([b"", b"\x00", b"\x00\x00", b"\x01", b"\xff", b"\x05\x00"]))


def hash20():
    def fix(b, mode):
        b = bytearray(b)
        if mode == 1:
            b[0] = 0
        elif mode == 2:
            b[0] = b[1] = 0
        elif mode == 3:
            b[-1] = 0
        elif mode == 4:
            b[0] = (b[1] % 4)
        elif mode == 5:
            b[0], b[-1] = b[1] % 4, 0
        return bytes(b)
    return st.builds(fix, st.binary(min_size=20, max_size=20), st.integers(0, 9))


def key_hashes():
    return st.builds(lambda t, h: bytes([t]) + h, st.integers(0, 3), hash20())


def entrypoints():
    return st.one_of(st.just(""), st.just(""), st.sampled_from(["a", "mint", "Z", "d", "default_", "deadbeef", "x" * 31]),
                     st.text(alphabet="abcdefghijklmnopqrstuvwxyzABCXYZ0123456789_", min_size=1, max_size=31))


def addresses(kinds=(0, 1, 3), with_ep=True):
    def mk(kind, tag, h, ep):
        b = (b"\x00" + bytes([tag]) + h) if kind == 0 else (bytes([kind]) + h + b"\x00")
        return (b, ep if with_ep else "")
    return st.builds(mk, st.sampled_from(list(kinds)), st.integers(0, 3), hash20(), entrypoints())


@functools.lru_cache(maxsize=None)
def key_pool(curve):
    """Valid public keys (tag+point) per curve, derived independently of pytezos."""
    tag = {"ed": 0, "sp": 1, "p2": 2, "BL": 3}[curve]
    n = 4 if curve == "BL" else 24
    order = "little" if curve == "BL" else "big"
    out = []
    for i in range(1, n + 1):
        sec = (i * 0x9E3779B97F4A7C15 + i).to_bytes(32, order) if curve != "ed" else bytes([i]) * 32
        out.append(bytes([tag]) + rc.derive_public(curve, sec))
    return out


def keys(curves=("ed", "sp", "p2", "BL")):
    return st.sampled_from(list(curves)).flatmap(lambda c: st.sampled_from(key_pool(c)))


def signatures():
    return st.one_of(st.binary(min_size=64, max_size=64), st.binary(min_size=64, max_size=64),
                     st.binary(min_size=96, max_size=96), st.sampled_from([b"\x00" * 64, b"\xff" * 64]))


def chain_ids():
    return st.one_of(st.binary(min_size=4, max_size=4), st.sampled_from([b"\x00" * 4, b"\xff" * 4]))


LAMBDA_BODIES = [[], [{"prim": "DROP"}, {"prim": "UNIT"}], [{"prim": "PUSH", "args": [{"prim": "int"}, {"int": "1"}]},
                                                             {"prim": "SWAP"}, {"prim": "DROP"}]]


def _P(name, *a):
    return {"prim": name, "args": list(a)} if a else {"prim": name}


# lambdas are plain code: they stay packable / duplicable / pushable / storable whatever types their signature mentions
ODD_LAMBDAS = [
    (T("lambda", T("ticket", T("nat")), T("unit")), [[_P("DROP"), _P("UNIT")]]),
    (T("lambda", T("unit"), T("option", T("ticket", T("nat")))), [[_P("DROP"), _P("NONE", T("ticket", T("nat")))]]),
    (T("lambda", T("big_map", T("nat"), T("nat")), T("nat")), [[_P("DROP"), _P("PUSH", T("nat"), {"int": "0"})]]),
    (T("lambda", T("unit"), T("list", T("operation"))), [[_P("DROP"), _P("NIL", T("operation"))]]),
    (T("lambda", T("contract", T("unit")), T("address")), [[_P("DROP"), _P("PUSH", T("address"), {"string": "tz1Ke2h7sDdakHJQh8WX4Z372du1KChsksyU"})]]),
    (T("lambda", T("pair", T("ticket", T("string")), T("nat")), T("nat")), [[_P("CDR")]]),
]


def leaf_value(p):
    return {
        "int": ints(), "nat": ints(False), "mutez": mutez(), "timestamp": timestamps(), "string": mstrings(),
        "bytes": mbytes(), "bool": st.booleans(), "unit": st.just(()), "key_hash": key_hashes(),
        "address": addresses(), "tx_rollup_l2_address": addresses(kinds=(2,)), "key": keys(), "signature": signatures(), "chain_id": chain_ids(),
        "bls12_381_fr": st.one_of(st.sampled_from([0, 1, rv.BLS_R - 1]), st.integers(0, rv.BLS_R - 1)),
        "bls12_381_g1": st.one_of(st.binary(min_size=96, max_size=96), st.just(b"\x40" + b"\x00" * 95)),
        "bls12_381_g2": st.one_of(st.binary(min_size=192, max_size=192), st.just(b"\x40" + b"\x00" * 191)),
    }[p]


# ---- types -----------------------------------------------------------------------------------------
def comparable_types(depth=2, leaves=None):
    leaves = leaves or COMPARABLE_LEAVES
    base = st.sampled_from(leaves).map(T)
    if depth <= 0:
        return base
    sub = comparable_types(depth - 1, leaves)
    return st.one_of(base, base, st.builds(lambda a: T("option", a), sub), st.builds(lambda a, b: T("or", a, b), sub, sub),
                     st.builds(lambda a, b: T("pair", a, b), sub, sub),
                     st.builds(lambda ts: rv.pair_t(*ts), st.lists(sub, min_size=3, max_size=5)))


def types(depth=2, leaves=None, collections=True, lambdas=False, big_maps=False, contracts=False):
    leaves = leaves or COMPARABLE_LEAVES
    base = st.sampled_from(leaves).map(T)
    if depth <= 0:
        return base
    sub = types(depth - 1, leaves, collections, lambdas, False, contracts)
    subb = types(depth - 1, leaves, collections, lambdas, big_maps, contracts) if big_maps else sub  # big maps also under pair / option / or
    key = comparable_types(min(depth - 1, 1), [l for l in leaves if l in COMPARABLE_LEAVES])
    opts = [base, base, st.builds(lambda a: T("option", a), subb), st.builds(lambda a, b: T("or", a, b), subb, subb),
            st.builds(lambda a, b: T("pair", a, b), subb, subb),
            st.builds(lambda ts: rv.pair_t(*ts), st.lists(sub, min_size=3, max_size=7))]
    if collections:
        opts += [st.builds(lambda a: T("list", a), sub), st.builds(lambda a: T("set", a), key),
                 st.builds(lambda a, b: T("map", a, b), key, sub)]
    if lambdas:
        opts.append(st.sampled_from([T("lambda", T("unit"), T("unit"))] * 3 + [lt for lt, _ in ODD_LAMBDAS]))
    if big_maps:
        opts.append(st.builds(lambda a, b: T("big_map", a, b), key, sub))
    if contracts:
        opts.append(st.just(T("contract", T("unit"))))
    return st.one_of(*opts)


# ---- values ----------------------------------------------------------------------------------------
def values(t, max_items=3, ptrs=False):
    """ptrs: big_map values may also be on-chain identifiers ("ptr", n), 0 included."""
    p = t["prim"]
    a = rv.targs(t)
    if p == "option":
        return st.one_of(st.none(), values(a[0], max_items, ptrs).map(lambda v: ("Some", v)))
    if p == "or":
        return st.one_of(values(a[0], max_items, ptrs).map(lambda v: ("Left", v)), values(a[1], max_items, ptrs).map(lambda v: ("Right", v)))
    if p == "pair":
        return st.tuples(values(a[0], max_items, ptrs), values(a[1], max_items, ptrs))
    if p == "list":
        return st.lists(values(a[0], max_items, ptrs), max_size=max_items)
    if p == "set":
        return st.lists(values(a[0], max_items, ptrs), max_size=max_items + 1).map(lambda vs: _sorted_consistent(a[0], vs))
    if p == "big_map" and ptrs:
        lit = values(t, max_items, False)
        return st.one_of(lit, st.sampled_from([0, 0, 1, 2, 42, 2 ** 31 - 1]).map(lambda n: ("ptr", n)),
                         st.integers(0, 10 ** 6).map(lambda n: ("ptr", n)))
    if p in ("map", "big_map"):
        return st.lists(st.tuples(values(a[0], max_items, ptrs), values(a[1], max_items, ptrs)), max_size=max_items + 1).map(
            lambda kv: _sorted_map(a[0], kv))
    if p == "lambda":
        for lt, bodies in ODD_LAMBDAS:
            if lt == t:
                return st.sampled_from(bodies)
        return st.sampled_from(LAMBDA_BODIES)
    if p == "contract":
        return addresses(kinds=(0, 1), with_ep=True)
    return leaf_value(p)


NO_ZERO = object()


def zero(t):
    """The inhabitant of t that Python code is most likely to mistake for "nothing" (empty / 0 / False / None); NO_ZERO if none."""
    p, a = t["prim"], rv.targs(t)
    if p in ("int", "nat", "mutez", "timestamp", "bls12_381_fr"):
        return 0
    if p == "string":
        return ""
    if p == "bytes":
        return b""
    if p == "bool":
        return False
    if p == "unit":
        return ()
    if p == "option":
        return None
    if p in ("list", "set", "map", "big_map"):
        return []
    if p == "pair":
        l, r = zero(a[0]), zero(a[1])
        return NO_ZERO if l is NO_ZERO or r is NO_ZERO else (l, r)
    if p == "or":
        l = zero(a[0])
        return NO_ZERO if l is NO_ZERO else ("Left", l)
    return NO_ZERO


def values_z(t, max_items=3):
    """values(t) with the zero-like inhabitant over-represented (one draw in three)"""
    z = zero(t)
    if z is NO_ZERO:
        return values(t, max_items)
    return st.one_of(values(t, max_items), values(t, max_items), st.just(z))


def _consistent(t, vs):
    """Drop values whose order against an earlier one is UNCONSTRAINED in the reference."""
    out = []
    for v in vs:
        if all(rv.compare(t, v, o) is not rv.UNCONSTRAINED for o in out):
            out.append(v)
    return out


def _sorted_consistent(t, vs):
    return rv.sort_values(t, _consistent(t, vs))


def _sorted_map(kt, kvs):
    keys = _sorted_consistent(kt, [k for k, _ in kvs])
    d = {}
    for k, v in kvs:
        d.setdefault(repr(k), v)
    return [(k, d[repr(k)]) for k in keys]


def typed(type_strategy, max_items=3):
    return type_strategy.flatmap(lambda t: values(t, max_items).map(lambda v: (t, v)))


@st.composite
def near(draw, t, v):
    """A value of type t that differs from v in (usually) one component; the deciding component moves around."""
    p = t["prim"]
    a = rv.targs(t)
    if p == "pair":
        ts, vs = rv.comb_types(t), rv.comb_values(t, v)
        i = draw(st.integers(0, len(ts) - 1))
        vs = list(vs)
        vs[i] = draw(near(ts[i], vs[i]))
        out = vs[-1]
        for x in reversed(vs[:-1]):
            out = (x, out)
        return out
    if p == "option":
        if v is None or draw(st.integers(0, 3)) == 0:
            return draw(values(t))
        return ("Some", draw(near(a[0], v[1])))
    if p == "or":
        if draw(st.integers(0, 3)) == 0:
            return draw(values(t))
        return (v[0], draw(near(a[0 if v[0] == "Left" else 1], v[1])))
    if p in ("int", "nat", "mutez", "timestamp"):
        d = draw(st.sampled_from([1, -1, 2, 256, -256]))
        w = v + d
        if p != "int" and p != "timestamp" and w < 0:
            w = v + 1
        if p == "mutez" and w >= 2 ** 63:
            w = v - 1 if v > 0 else 0
        return w
    if p == "string":
        k = draw(st.integers(0, 3))
        if k == 0 or not v:
            return v + "a"
        if k == 1:
            return v[:-1]
        return v[:-1] + (chr(min(126, ord(v[-1]) + 1)) if 32 <= ord(v[-1]) < 127 else " ")
    if p in ("bytes",):
        k = draw(st.integers(0, 2))
        return v + b"\x00" if k == 0 else (v[:-1] if k == 1 and v else b"\x01" + v)
    if p == "signature" and draw(st.integers(0, 2)) == 0:
        return v  # the same bytes again (possibly spelled under another prefix by the caller)
    if p in ("key_hash", "chain_id", "signature"):
        b = bytearray(v)
        i = draw(st.integers(0, len(b) - 1))
        b[i] = (b[i] + draw(st.sampled_from([1, 255, 128]))) % 256
        if p == "key_hash":
            b[0] %= 4
        return bytes(b)
    if p == "key":  # another key of the same curve (the deciding byte is then the parity flag or a coordinate byte), or any key
        if draw(st.integers(0, 3)):
            curve = {0: "ed", 1: "sp", 2: "p2", 3: "BL"}[v[0]]
            return draw(st.sampled_from(key_pool(curve)))
        return draw(values(t))
    if p == "address":
        b, ep = v
        k = draw(st.integers(0, 5))
        if k in (0, 4, 5):  # same destination, other entrypoint (names on both sides of "default", and none at all)
            return (b, draw(st.one_of(entrypoints(), st.sampled_from(["", "a", "approve", "d", "defaul", "default_", "e", "mint"]))))
        if k == 1:  # same hash, other kind
            h = b[2:] if b[0] == 0 else b[1:21]
            return draw(st.sampled_from([(b"\x00" + bytes([tg]) + h, ep) for tg in range(4)]
                                        + [(bytes([kd]) + h + b"\x00", ep) for kd in (1, 3)]))
        bb = bytearray(b)
        i = draw(st.integers(2 if b[0] == 0 else 1, 20))
        bb[i] = (bb[i] + draw(st.sampled_from([1, 255]))) % 256
        return (bytes(bb), ep)
    return draw(values(t))


# ---- annotations -----------------------------------------------------------------------------------
NAMES = ["a", "b", "c", "a", "owner", "amount", "x1", "default", "root", "int_0", "nat_1", "unit_0", "pair_0"]


@st.composite
def decorate(draw, t, field_ok=False, p_field=0.45, p_type=0.12, names=None, bare=0.08):
    """Adds %field annotations where Tezos allows them (pair / or components and the root) and :type annotations
    anywhere. Returns the annotated type expression (values are unaffected)."""
    names = names or NAMES
    out = {"prim": t["prim"]}
    annots = []
    # `bare`: share of annotations that are the bare sigil (`%`, `:` = explicitly no name; legal in Michelson)
    if field_ok and draw(st.floats(0, 1)) < p_field:
        annots.append("%" + ("" if draw(st.floats(0, 1)) < bare else draw(st.sampled_from(names))))
    if draw(st.floats(0, 1)) < p_type:
        annots.append(":" + ("" if draw(st.floats(0, 1)) < bare else draw(st.sampled_from(names))))
    args = rv.targs(t)
    if args:
        child_field = t["prim"] in ("pair", "or")
        out["args"] = [draw(decorate(a, child_field, p_field, p_type, names, bare)) for a in args]
    if annots:
        out["annots"] = annots
    return out


def strip(t):
    out = {"prim": t["prim"]}
    if t.get("args"):
        out["args"] = [strip(a) for a in t["args"]]
    return out
