"""Independent crypto references: base58check, Tezos prefix table, Merkle root, BIP-39 checksum.

Nothing here imports pytezos.
"""
from __future__ import annotations

import hashlib
from hashlib import blake2b, sha256
from typing import List, Optional, Tuple

ALPHABET = "123456789ABCDEFGHJKLMNPQRSTUVWXYZabcdefghijkmnopqrstuvwxyz"
_INDEX = {c: i for i, c in enumerate(ALPHABET)}


def b58encode(b: bytes) -> str:
    n = int.from_bytes(b, "big")
    out = ""
    while n > 0:
        n, r = divmod(n, 58)
        out = ALPHABET[r] + out
    pad = len(b) - len(b.lstrip(b"\x00"))
    return "1" * pad + out


def b58decode(s: str) -> Optional[bytes]:
    n = 0
    for c in s:
        if c not in _INDEX:
            return None
        n = n * 58 + _INDEX[c]
    pad = len(s) - len(s.lstrip("1"))
    body = n.to_bytes((n.bit_length() + 7) // 8, "big") if n else b""
    return b"\x00" * pad + body


def checksum(b: bytes) -> bytes:
    return sha256(sha256(b).digest()).digest()[:4]


def b58check_encode(b: bytes) -> str:
    return b58encode(b + checksum(b))


def b58check_decode(s: str) -> Optional[bytes]:
    raw = b58decode(s)
    if raw is None or len(raw) < 4:
        return None
    if checksum(raw[:-4]) != raw[-4:]:
        return None
    return raw[:-4]


# (human prefix, encoded length, binary prefix, payload length) — written from the Tezos
# base58 prefix registry (src/lib_crypto/base58.ml); compared with pytezos' table by C09.
PREFIXES: List[Tuple[str, int, bytes, int]] = [
    ("B", 51, bytes([1, 52]), 32),
    ("o", 51, bytes([5, 116]), 32),
    ("Lo", 52, bytes([133, 233]), 32),
    ("LLo", 53, bytes([29, 159, 109]), 32),
    ("P", 51, bytes([2, 170]), 32),
    ("Co", 52, bytes([79, 199]), 32),
    ("tz1", 36, bytes([6, 161, 159]), 20),
    ("tz2", 36, bytes([6, 161, 161]), 20),
    ("tz3", 36, bytes([6, 161, 164]), 20),
    ("tz4", 36, bytes([6, 161, 166]), 20),
    ("KT1", 36, bytes([2, 90, 121]), 20),
    ("txr1", 37, bytes([1, 128, 120, 31]), 20),
    ("sr1", 36, bytes([6, 124, 117]), 20),
    ("src1", 54, bytes([17, 165, 134, 138]), 32),
    ("srs1", 54, bytes([17, 165, 235, 240]), 32),
    ("srib1", 55, bytes([3, 255, 138, 145, 110]), 32),
    ("srib2", 55, bytes([3, 255, 138, 145, 140]), 32),
    ("id", 30, bytes([153, 103]), 16),
    ("expr", 54, bytes([13, 44, 64, 27]), 32),
    ("edsk", 54, bytes([13, 15, 58, 7]), 32),
    ("edpk", 54, bytes([13, 15, 37, 217]), 32),
    ("spsk", 54, bytes([17, 162, 224, 201]), 32),
    ("p2sk", 54, bytes([16, 81, 238, 189]), 32),
    ("edesk", 88, bytes([7, 90, 60, 179, 41]), 56),
    ("spesk", 88, bytes([9, 237, 241, 174, 150]), 56),
    ("p2esk", 88, bytes([9, 48, 57, 115, 171]), 56),
    ("sppk", 55, bytes([3, 254, 226, 86]), 33),
    ("p2pk", 55, bytes([3, 178, 139, 127]), 33),
    ("SSp", 53, bytes([38, 248, 136]), 32),  # secp256k1 scalar (32 bytes): Tezos documents SSp(53)
    ("GSp", 54, bytes([5, 92, 0]), 33),  # secp256k1 element (33 bytes): Tezos documents GSp(54)
    ("edsk", 98, bytes([43, 246, 78, 7]), 64),
    ("edsig", 99, bytes([9, 245, 205, 134, 18]), 64),
    ("spsig", 99, bytes([13, 115, 101, 19, 63]), 64),
    ("p2sig", 98, bytes([54, 240, 44, 52]), 64),
    ("sig", 96, bytes([4, 130, 43]), 64),
    ("Net", 15, bytes([87, 82, 0]), 4),
    ("nce", 53, bytes([69, 220, 169]), 32),
    ("btz1", 37, bytes([1, 2, 49, 223]), 20),
    ("vh", 52, bytes([1, 106, 242]), 32),
    ("BLsig", 142, bytes([40, 171, 64, 207]), 96),
    ("BLpk", 76, bytes([6, 149, 135, 204]), 48),
    ("BLsk", 54, bytes([3, 150, 192, 40]), 32),
    ("BLesk", 88, bytes([2, 5, 30, 53, 25]), 56),
]
BY_NAME = {}
for _row in PREFIXES:
    BY_NAME.setdefault((_row[0], _row[3]), _row)


def tz_encode(payload: bytes, human: str) -> str:
    row = BY_NAME[(human, len(payload))]
    return b58check_encode(row[2] + payload)


def tz_decode(s: str) -> Optional[Tuple[str, bytes]]:
    """Strict: checksum valid AND binary prefix + payload length are exactly those of one registered kind."""
    raw = b58check_decode(s)
    if raw is None:
        return None
    for human, enc_len, binp, plen in PREFIXES:
        if raw.startswith(binp) and len(raw) == len(binp) + plen:
            return human, raw[len(binp):]
    return None


def blake2b_32(b: bytes) -> bytes:
    return blake2b(b, digest_size=32).digest()


def blake2b_20(b: bytes) -> bytes:
    return blake2b(b, digest_size=20).digest()


def merkle_root(leaves: List[bytes]) -> bytes:
    """Tezos Blake2B Merkle tree: empty -> H(""), else leaves hashed, padded with the last leaf to a
    power of two (single leaf -> H(leaf)), nodes H(l || r)."""
    if not leaves:
        return blake2b_32(b"")
    level = [blake2b_32(x) for x in leaves]
    size = 1
    while size < len(level):
        size *= 2
    level = level + [level[-1]] * (size - len(level))
    while len(level) > 1:
        level = [blake2b_32(level[i] + level[i + 1]) for i in range(0, len(level), 2)]
    return level[0]


# ---- BIP-39 -------------------------------------------------------------------------------------
def bip39_is_valid(words: List[str], wordlist: List[str]) -> bool:
    if len(words) not in (12, 15, 18, 21, 24):
        return False
    idx = {w: i for i, w in enumerate(wordlist)}
    if any(w not in idx for w in words):
        return False
    bits = 0
    for w in words:
        bits = (bits << 11) | idx[w]
    total = len(words) * 11
    cs_len = total // 33
    ent_len = total - cs_len
    ent = bits >> cs_len
    cs = bits & ((1 << cs_len) - 1)
    h = hashlib.sha256(ent.to_bytes(ent_len // 8, "big")).digest()
    return cs == (int.from_bytes(h, "big") >> (256 - cs_len))


def bip39_from_entropy(ent: bytes, wordlist: List[str]) -> List[str]:
    ent_len = len(ent) * 8
    cs_len = ent_len // 32
    h = hashlib.sha256(ent).digest()
    cs = int.from_bytes(h, "big") >> (256 - cs_len)
    bits = (int.from_bytes(ent, "big") << cs_len) | cs
    n = (ent_len + cs_len) // 11
    return [wordlist[(bits >> (11 * (n - 1 - i))) & 0x7FF] for i in range(n)]


# ---- independent key derivation / signature verification (cryptography + py_ecc primitives) ------
SECP256K1_N = 0xFFFFFFFFFFFFFFFFFFFFFFFFFFFFFFFEBAAEDCE6AF48A03BBFD25E8CD0364141
P256_N = 0xFFFFFFFF00000000FFFFFFFFFFFFFFFFBCE6FAADA7179E84F3B9CAC2FC632551
BLS_R = 52435875175126190479447740508185965837690552500527637822603658699938581184513
CURVE_PK = {"ed": "edpk", "sp": "sppk", "p2": "p2pk", "BL": "BLpk"}
CURVE_PKH = {"ed": "tz1", "sp": "tz2", "p2": "tz3", "BL": "tz4"}
CURVE_SIG = {"ed": "edsig", "sp": "spsig", "p2": "p2sig", "BL": "BLsig"}


def derive_public(curve: str, secret: bytes) -> bytes:
    """secret: ed -> 32-byte seed; sp/p2 -> 32-byte big-endian scalar; BL -> 32-byte little-endian scalar."""
    from cryptography.hazmat.primitives import serialization
    from cryptography.hazmat.primitives.asymmetric import ec, ed25519
    if curve == "ed":
        k = ed25519.Ed25519PrivateKey.from_private_bytes(secret)
        return k.public_key().public_bytes(serialization.Encoding.Raw, serialization.PublicFormat.Raw)
    if curve in ("sp", "p2"):
        c = ec.SECP256K1() if curve == "sp" else ec.SECP256R1()
        k = ec.derive_private_key(int.from_bytes(secret, "big"), c)
        return k.public_key().public_bytes(serialization.Encoding.X962, serialization.PublicFormat.CompressedPoint)
    from py_ecc.bls.g2_primitives import G1_to_pubkey
    from py_ecc.optimized_bls12_381 import G1, multiply
    return bytes(G1_to_pubkey(multiply(G1, int.from_bytes(secret, "little"))))


def verify_independent(curve: str, public: bytes, message: bytes, sig: bytes) -> bool:
    from cryptography.exceptions import InvalidSignature
    from cryptography.hazmat.primitives import hashes
    from cryptography.hazmat.primitives.asymmetric import ec, ed25519, utils
    digest = blake2b_32(message)
    try:
        if curve == "ed":
            ed25519.Ed25519PublicKey.from_public_bytes(public).verify(sig, digest)
            return True
        if curve in ("sp", "p2"):
            c = ec.SECP256K1() if curve == "sp" else ec.SECP256R1()
            pk = ec.EllipticCurvePublicKey.from_encoded_point(c, public)
            der = utils.encode_dss_signature(int.from_bytes(sig[:32], "big"), int.from_bytes(sig[32:], "big"))
            pk.verify(der, digest, ec.ECDSA(utils.Prehashed(hashes.SHA256())))
            return True
    except (InvalidSignature, ValueError):
        return False
    # BLS MinPk, message augmentation: e(pk, H(pk || msg)) == e(g1, sig)
    from hashlib import sha256 as _sha
    from py_ecc.bls.g2_primitives import pubkey_to_G1, signature_to_G2
    from py_ecc.bls.hash_to_curve import hash_to_G2
    from py_ecc.optimized_bls12_381 import FQ12, G1, final_exponentiate, neg, pairing
    try:
        P = pubkey_to_G1(public)
        S = signature_to_G2(sig)
    except Exception:
        return False
    H = hash_to_G2(public + message, b"BLS_SIG_BLS12381G2_XMD:SHA-256_SSWU_RO_AUG_", _sha)
    prod = pairing(S, neg(G1), final_exponentiate=False) * pairing(H, P, final_exponentiate=False)
    return final_exponentiate(prod) == FQ12.one()
