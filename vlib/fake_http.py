"""Scripted requests.request + recorded sleep for pytezos.rpc.node (C26, C28). Real requests.Response objects."""
from __future__ import annotations

import json
from contextlib import contextmanager
from typing import Any, Callable, List

import requests


def make_response(status: int, body: bytes, content_type: str | None) -> requests.Response:
    r = requests.Response()
    r.status_code = status
    r._content = body
    r.encoding = "utf-8"
    if content_type is not None:
        r.headers["content-type"] = content_type
    return r


def from_spec(spec: dict) -> requests.Response:
    """spec: {"status": int, "ctype": str|None, "json": any} or {"status":…, "ctype":…, "text": str}"""
    if "json" in spec:
        body = json.dumps(spec["json"]).encode()
    else:
        body = spec.get("text", "").encode()
    r = make_response(spec["status"], body, spec.get("ctype"))
    for k, v in (spec.get("headers") or {}).items():
        r.headers[k] = v
    return r


class Script:
    def __init__(self, responder: Callable[[int, str, str], Any]):
        self.responder = responder
        self.calls: List[dict] = []
        self.sleeps: List[float] = []

    def request(self, method=None, url=None, **kw):
        i = len(self.calls)
        self.calls.append({"method": method, "url": url})
        out = self.responder(i, method, url)
        if isinstance(out, BaseException):
            raise out
        return out

    def sleep(self, d):
        self.sleeps.append(d)


@contextmanager
def patched(script: Script):
    import pytezos.rpc.node as node

    class _Req:
        exceptions = requests.exceptions
        Response = requests.Response
        request = staticmethod(script.request)

    old_req, old_sleep = node.requests, node.sleep
    node.requests = _Req
    node.sleep = script.sleep
    try:
        yield script
    finally:
        node.requests = old_req
        node.sleep = old_sleep
