"""Shared harness: seeds, tiers, sharding, evidence, violations, known findings.

Every check module (checks/cNN.py) exposes

    PID   = "C31"
    RULE  = "how cases are generated and what makes one non-trivial"
    def run(h):           # drive generators; all bookkeeping through h / Stats
    def replay(case):     # re-execute the oracle on one JSON case; raise Violation if it fails

Exit codes: 0 held, 1 violation (unlisted), 2 harness error / inconclusive.
"""
from __future__ import annotations

import hashlib
import json
import multiprocessing as mp
import os
import sys
import time
import traceback
from collections import Counter
from typing import Any, Callable, Dict, List, Optional

VERIF = os.path.dirname(os.path.dirname(os.path.abspath(__file__)))
NPROC = int(os.environ.get("VERIF_NPROC", "16"))


class Violation(Exception):
    """The property is violated on `case` (JSON-serialisable). `sig` is a root-cause bucket."""

    def __init__(self, msg: str, case: Any = None, sig: str = ""):
        super().__init__(msg)
        self.msg = msg
        self.case = case
        self.sig = sig or msg[:60]


class Inconclusive(Exception):
    pass


CASE_TIMEOUT = int(os.environ.get("VERIF_CASE_TIMEOUT", "300"))


def _on_alarm(signum, frame):
    raise Inconclusive("a single case ran longer than %ds (watchdog; not judged as a violation)" % CASE_TIMEOUT)


def arm_watchdog():
    """Re-armed before every case: a hang becomes exit 2 instead of a stuck check."""
    import signal
    signal.signal(signal.SIGALRM, _on_alarm)
    signal.alarm(CASE_TIMEOUT)


def jdump(obj: Any) -> str:
    return json.dumps(obj, sort_keys=True, default=_default, separators=(",", ":"))


def _default(o):
    if isinstance(o, (bytes, bytearray)):
        return {"__bytes__": bytes(o).hex()}
    if isinstance(o, (set, frozenset)):
        return sorted(o, key=repr)
    if isinstance(o, tuple):
        return list(o)
    return repr(o)


def case_hash(obj: Any) -> bytes:
    return hashlib.blake2b(jdump(obj).encode(), digest_size=8).digest()


def shard_seed(seed: int, shard: int) -> int:
    d = hashlib.blake2b(b"%d|%d" % (seed, shard), digest_size=8).digest()
    return int.from_bytes(d, "big") >> 1


class Stats:
    """Picklable per-shard counters, merged by the parent."""

    MAX_SAMPLES_PER_CLASS = 2
    MAX_SAMPLES = 14

    def __init__(self):
        self.evaluations = 0
        self.nontrivial = set()
        self.classes = Counter()
        self.samples: Dict[str, List[Any]] = {}
        self.known = Counter()
        self.known_examples: Dict[str, Any] = {}
        self.violations: List[dict] = []
        self.extra = Counter()
        self.frozen = False  # set once a failure is being shrunk: stop counting

    def case(self, canon: Any, nontrivial: bool, label: str = "case", sample: Any = None):
        if self.frozen:
            return
        self.evaluations += 1
        self.classes[label] += 1
        if nontrivial:
            self.nontrivial.add(case_hash(canon))
            self.classes["nontrivial"] += 1
        lst = self.samples.setdefault(label, [])
        if len(lst) < self.MAX_SAMPLES_PER_CLASS and (nontrivial or not lst):
            lst.append(sample if sample is not None else canon)

    def label(self, name: str, n: int = 1):
        if not self.frozen:
            self.classes[name] += n

    def merge(self, o: "Stats"):
        self.evaluations += o.evaluations
        self.nontrivial |= o.nontrivial
        self.classes.update(o.classes)
        self.known.update(o.known)
        self.extra.update(o.extra)
        for k, v in o.known_examples.items():
            self.known_examples.setdefault(k, v)
        for k, v in o.samples.items():
            lst = self.samples.setdefault(k, [])
            for s in v:
                if len(lst) < self.MAX_SAMPLES_PER_CLASS:
                    lst.append(s)
        self.violations.extend(o.violations)

    def sample_list(self):
        out = []
        keys = sorted(self.samples)
        i = 0
        while len(out) < self.MAX_SAMPLES and any(self.samples[k] for k in keys):
            for k in keys:
                if self.samples[k] and len(out) < self.MAX_SAMPLES:
                    out.append({"class": k, "case": self.samples[k].pop(0)})
            i += 1
        return out


class Harness:
    def __init__(self, pid: str, tier: str, seed: int, rule: str, level: str = "exploration"):
        self.pid = pid
        self.tier = tier
        self.seed = seed
        self.rule = rule
        self.level = level
        self.stats = Stats()
        self.t0 = time.time()
        self.assumptions: List[str] = []
        self.coverage_extra: Dict[str, Any] = {}
        self.exhaustive: Optional[bool] = None
        self.replays_run = 0
        self.known_file = _load_known()
        self.budget_hit = False

    # ---- tiers -------------------------------------------------------------------------------
    @property
    def quick(self) -> bool:
        return self.tier == "quick"

    def n(self, quick: int, thorough: int) -> int:
        """Case count for this tier (VERIF_SCALE multiplies, for experiments)."""
        k = quick if self.quick else thorough
        return max(1, int(k * float(os.environ.get("VERIF_SCALE", "1"))))

    # ---- known findings ------------------------------------------------------------------------
    def listed(self, fid: str) -> bool:
        return any(f["property"] == self.pid and f["id"] == fid and f.get("status", "open") == "open"
                   for f in self.known_file)

    # ---- running -------------------------------------------------------------------------------
    def run_replays(self, replay_fn: Callable[[Any], None], classify: Optional[Callable] = None):
        """Committed regression inputs (replays/<PID>/*.json) are re-run first in both tiers."""
        d = os.path.join(VERIF, "replays", self.pid)
        if not os.path.isdir(d):
            return
        for fn in sorted(os.listdir(d)):
            if not fn.endswith(".json"):
                continue
            with open(os.path.join(d, fn)) as f:
                doc = json.load(f)
            case = doc["case"] if isinstance(doc, dict) and "case" in doc else doc
            self.replays_run += 1
            try:
                replay_fn(case)
            except Violation as v:
                fid = classify(v) if classify else None
                if fid and self.listed(fid):
                    self.stats.known[fid] += 1
                    self.stats.known_examples.setdefault(fid, v.msg)
                else:
                    self.stats.violations.append({"msg": v.msg, "case": v.case if v.case is not None else case,
                                                  "sig": v.sig, "from_replay": fn})

    def run_given(self, strategy_fn: Callable[[], Any], prop: Callable[[Any, Stats], None], n_cases: int,
                  shards: int = 1, classify: Optional[Callable[[Violation], Optional[str]]] = None,
                  shrink: bool = True, name: str = "given", recycle: int = 0):
        """Run `prop(case, stats)` on `n_cases` generated cases per shard, in `shards` forked processes.

        `prop` raises Violation on failure. `classify(v)` maps a violation to a listed known-finding id
        (or None); listed findings are counted and the search continues behind them."""
        seeds = [shard_seed(self.seed, hash_name(name) + i) for i in range(shards)]

        def worker(sd: int) -> Stats:
            return _run_hypothesis(strategy_fn, prop, n_cases, sd, classify, self, shrink)

        for st in _fork_map(worker, seeds):
            self.stats.merge(st)

    def run_enum(self, items: List[Any], prop: Callable[[Any, Stats], None], shards: int = 1,
                 classify: Optional[Callable[[Violation], Optional[str]]] = None):
        """Exhaustive enumeration of `items`, strided over forked processes."""

        def worker(k: int) -> Stats:
            st = Stats()
            for it in items[k::shards]:
                arm_watchdog()
                try:
                    prop(it, st)
                except Violation as v:
                    fid = classify(v) if classify else None
                    if fid and self.listed(fid):
                        st.known[fid] += 1
                        st.known_examples.setdefault(fid, v.msg)
                    else:
                        sigs = {x["sig"] for x in st.violations}
                        if v.sig not in sigs and len(st.violations) < 5:
                            st.violations.append({"msg": v.msg, "case": v.case if v.case is not None else it,
                                                  "sig": v.sig})
            return st

        for st in _fork_map(worker, list(range(shards))):
            self.stats.merge(st)

    def run_enum_given(self, keys: List[Any], strat_for_key: Callable[[Any], Any], prop: Callable[[Any, Stats], None],
                       reps: int, shards: int = 16, classify: Optional[Callable] = None, shrink: bool = True):
        """Exhaustive over `keys` (strided over forked processes); for each key hypothesis draws `reps`
        cases from strat_for_key(key). One violation per root-cause signature is kept and the loop goes on."""

        def worker(k: int) -> Stats:
            st = Stats()
            for idx in range(k, len(keys), shards):
                key = keys[idx]
                sub = _run_hypothesis(lambda: strat_for_key(key), prop, reps, shard_seed(self.seed, 7919 + idx),
                                      classify, self, shrink)
                sigs = {x["sig"] for x in st.violations}
                sub.violations = [v for v in sub.violations if v["sig"] not in sigs]
                st.merge(sub)
                st.extra["keys_done"] += 1
            return st

        for st in _fork_map(worker, list(range(min(shards, max(1, len(keys)))))):
            self.stats.merge(st)

    def run_machine(self, machine_factory: Callable[[Stats], Any], n_machines: int, steps: int, shards: int = 1,
                    classify: Optional[Callable] = None, name: str = "machine", shrink: bool = True):
        """Stateful search: machine_factory(stats) returns a RuleBasedStateMachine subclass whose rules raise
        Violation; each shard runs n_machines histories of up to `steps` steps."""
        seeds = [shard_seed(self.seed, hash_name(name) + i) for i in range(shards)]

        def worker(sd: int) -> Stats:
            import hypothesis
            from hypothesis import HealthCheck, Phase, settings
            from hypothesis.stateful import run_state_machine_as_test
            st = Stats()
            cls = machine_factory(st)
            phases = [Phase.generate, Phase.shrink] if shrink else [Phase.generate]
            sett = settings(max_examples=n_machines, stateful_step_count=steps, database=None, deadline=None,
                            report_multiple_bugs=False, suppress_health_check=list(HealthCheck), phases=phases,
                            print_blob=False, verbosity=hypothesis.Verbosity.quiet)
            try:
                run_state_machine_as_test(hypothesis.seed(sd)(cls), settings=sett)
            except Violation as v:
                fid = classify(v) if classify else None
                if fid and self.listed(fid):
                    st.known[fid] += 1
                else:
                    st.violations.append({"msg": v.msg, "case": v.case, "sig": v.sig})
            except hypothesis.errors.Flaky as e:
                raise Inconclusive("flaky state machine: %r" % (e,))
            st.frozen = False
            return st

        for st in _fork_map(worker, seeds):
            self.stats.merge(st)

    # ---- finishing -----------------------------------------------------------------------------
    def finish(self) -> int:
        st = self.stats
        wall = time.time() - self.t0
        # de-duplicate violations by root-cause signature
        seen, viols = set(), []
        for v in st.violations:
            if v["sig"] in seen:
                continue
            seen.add(v["sig"])
            viols.append(v)
        cov = {
            "evaluations": st.evaluations,
            "distinct_nontrivial": len(st.nontrivial),
            "rule": self.rule,
            "samples": st.sample_list(),
            "classes": dict(sorted(st.classes.items())),
            "known_excluded": dict(st.known),
            "replays_run": self.replays_run,
            "budget_hit": self.budget_hit,
        }
        if self.exhaustive is not None:
            cov["exhaustive"] = self.exhaustive
        if st.extra:
            cov["counters"] = dict(sorted(st.extra.items()))
        cov.update(self.coverage_extra)
        ev = {
            "property_id": self.pid,
            "tier": self.tier,
            "seed": self.seed,
            "level": self.level,
            "coverage": cov,
            "assumptions": self.assumptions,
            "wall_s": round(wall, 2),
            "violations": len(viols),
        }
        evdir = os.environ.get("VERIF_EVIDENCE_DIR") or os.path.join(VERIF, "evidence")
        os.makedirs(evdir, exist_ok=True)
        with open(os.path.join(evdir, self.pid + ".json"), "w") as f:
            json.dump(json.loads(jdump(ev)), f, indent=1, sort_keys=True)
            f.write("\n")
        for fid, cnt in sorted(st.known.items()):
            what = next((f["what_fails"] for f in self.known_file
                         if f["property"] == self.pid and f["id"] == fid), fid)
            print("KNOWN-FINDING: property=%s %s [%s, re-observed %d times]" % (self.pid, what, fid, cnt))
        for v in viols:
            path = write_violation(self.pid, v)
            print("  detail: %s" % v["msg"][:600])
            print("VIOLATION property=%s replay=%s" % (self.pid, path))
        print("%s %s seed=%d: %d cases, %d distinct non-trivial, %d known-excluded, %d violation(s), %.1fs"
              % (self.pid, self.tier, self.seed, st.evaluations, len(st.nontrivial), sum(st.known.values()),
                 len(viols), wall))
        if viols:
            return 1
        if st.evaluations < 1 or len(st.nontrivial) < 2:
            print("INCONCLUSIVE: too few non-trivial cases", file=sys.stderr)
            return 2
        return 0


def hash_name(name: str) -> int:
    return int.from_bytes(hashlib.blake2b(name.encode(), digest_size=3).digest(), "big")


def write_violation(pid: str, v: dict) -> str:
    d = os.path.join(VERIF, "out", "violations", pid)
    os.makedirs(d, exist_ok=True)
    body = {"property": pid, "sig": v["sig"], "msg": v["msg"], "case": v["case"]}
    name = hashlib.blake2b(jdump(body["case"]).encode(), digest_size=6).hexdigest() + ".json"
    path = os.path.join(d, name)
    with open(path, "w") as f:
        f.write(json.dumps(json.loads(jdump(body)), indent=1, sort_keys=True) + "\n")
    return path


def _load_known() -> List[dict]:
    p = os.path.join(VERIF, "known_findings.json")
    if not os.path.exists(p):
        return []
    with open(p) as f:
        return json.load(f).get("findings", [])


def _fork_map(worker: Callable[[Any], Stats], args: List[Any]) -> List[Stats]:
    """Run worker(arg) for each arg in forked children (closures allowed); at most NPROC at once."""
    if len(args) == 1:
        return [worker(args[0])]
    import signal
    signal.alarm(0)   # the per-case watchdog belongs to the processes that run cases; this one only waits for them (possibly for long)
    ctx = mp.get_context("fork")
    results: List[Optional[Stats]] = [None] * len(args)
    pending = list(enumerate(args))
    running: List[tuple] = []

    def child(conn, a):
        try:
            conn.send(("ok", worker(a)))
        except BaseException as e:  # harness error in child
            conn.send(("err", "".join(traceback.format_exception(type(e), e, e.__traceback__))))
        finally:
            conn.close()

    try:
        return _fork_loop(ctx, child, pending, running, results)
    finally:
        # whatever ends the loop early (a failed worker, an interrupt): no child may outlive it -- a child blocked on writing its
        # result to a pipe nobody reads would keep the exiting parent waiting forever
        for _, q, _ in running:
            if q.is_alive():
                q.terminate()


def _fork_loop(ctx, child, pending, running, results):
    while pending or running:
        while pending and len(running) < NPROC:
            i, a = pending.pop(0)
            rd, wr = ctx.Pipe(duplex=False)
            p = ctx.Process(target=child, args=(wr, a), daemon=True)
            p.start()
            wr.close()
            running.append((i, p, rd))
        still = []
        progressed = False
        for i, p, rd in running:
            if rd.poll(0.02):
                try:
                    kind, val = rd.recv()
                except EOFError:
                    kind, val = "err", "child died without result (exit %s)" % p.exitcode
                p.join()
                progressed = True
                if kind == "err":
                    for _, q, _ in running:
                        if q.is_alive():
                            q.terminate()
                    raise Inconclusive("worker failed:\n" + val)
                results[i] = val
            elif not p.is_alive() and not rd.poll(0.05):
                raise Inconclusive("worker %d died (exit %s)" % (i, p.exitcode))
            else:
                still.append((i, p, rd))
        running[:] = still
        if not progressed:
            time.sleep(0.01)
    return results  # type: ignore


class _StopShrink(BaseException):
    """Raised inside a property once shrinking has used its wall-clock budget; the best failing case so far is kept."""


SHRINK_BUDGET = {"quick": int(os.environ.get("VERIF_SHRINK_S", "45")), "thorough": int(os.environ.get("VERIF_SHRINK_S", "240"))}


def _run_hypothesis(strategy_fn, prop, n_cases, sd, classify, h: Harness, shrink: bool) -> Stats:
    import hypothesis
    from hypothesis import HealthCheck, Phase, given, settings

    st = Stats()
    phases = [Phase.generate, Phase.shrink] if shrink else [Phase.generate]
    strategy = strategy_fn()

    @hypothesis.seed(sd)
    @settings(max_examples=n_cases, database=None, deadline=None, report_multiple_bugs=False,
              suppress_health_check=list(HealthCheck), phases=phases, print_blob=False,
              verbosity=hypothesis.Verbosity.quiet)
    @given(strategy)
    def t(case):
        arm_watchdog()
        if best and time.time() - best[0] > SHRINK_BUDGET.get(h.tier, 45):
            raise _StopShrink()
        try:
            prop(case, st)
        except Violation as v:
            fid = classify(v) if classify else None
            if fid and h.listed(fid):
                if not st.frozen:
                    st.known[fid] += 1
                    st.known_examples.setdefault(fid, v.msg)
                return
            st.frozen = True
            if v.case is None:
                v.case = case
            if not best:
                best.append(time.time())
                best.append(v)
            elif len(jdump(v.case)) <= len(jdump(best[1].case)):
                best[1] = v
            raise

    best: list = []
    try:
        t()
    except Violation as v:
        st.violations.append({"msg": v.msg, "case": v.case, "sig": v.sig})
    except _StopShrink:
        v = best[1]
        st.extra["shrink_budget_hit"] += 1
        st.violations.append({"msg": v.msg, "case": v.case, "sig": v.sig})
    except hypothesis.errors.Flaky as e:
        # The same input failed once and passed when hypothesis ran it again. The oracles here are pure functions of the case,
        # so when the first run raised a Violation the code under test answered differently to identical calls: its outcome
        # depends on earlier calls in the process. That wrong answer was observed and is reported (marked state-dependent);
        # anything else that is flaky is a harness problem and stays inconclusive.
        inner = [x for x in getattr(e, "exceptions", []) if isinstance(x, Violation)] or ([best[1]] if best else [])
        if not inner:
            raise Inconclusive("flaky: %r" % (e,))
        v = inner[0]
        fid = classify(v) if classify else None
        if not (fid and h.listed(fid)):
            st.violations.append({"msg": v.msg + "  [state-dependent: the identical call passed when repeated in the same process, so "
                                  "the outcome depends on earlier calls; the replay file alone may not reproduce it]",
                                  "case": v.case, "sig": "state-dependent:" + v.sig})
    st.frozen = False
    return st


def main_run(mod, tier: str, seed: int) -> int:
    h = Harness(mod.PID, tier, seed, mod.RULE, getattr(mod, "LEVEL", "exploration"))
    try:
        try:  # import once in the parent so forked workers share it (importing in 16 children at once is slow)
            import pytezos  # noqa: F401
            import hypothesis  # noqa: F401
        except Exception as e:  # a tree that does not even import breaks every property
            print("  detail: import pytezos failed: %r" % (e,))
            print("VIOLATION property=%s replay=%s" % (mod.PID, write_violation(mod.PID, {
                "sig": "import", "msg": "import pytezos failed: %r" % (e,), "case": {"import": "pytezos"}})))
            return 1
        classify = getattr(mod, "classify", None)
        h.run_replays(mod.replay, classify)
        mod.run(h)
        return h.finish()
    except Inconclusive as e:
        if h.stats.violations:  # an earlier tier already found a reproducible violation: report it
            print("note: a later tier was inconclusive (%s)" % str(e)[:200], file=sys.stderr)
            return h.finish()
        print("INCONCLUSIVE %s: %s" % (mod.PID, e), file=sys.stderr)
        return 2
    except Exception:
        traceback.print_exc()
        print("HARNESS-ERROR %s" % mod.PID, file=sys.stderr)
        return 2


def main_replay(mod, path: str) -> int:
    with open(path) as f:
        doc = json.load(f)
    case = doc["case"] if isinstance(doc, dict) and "case" in doc else doc
    try:
        mod.replay(case)
    except Violation as v:
        print("  detail: %s" % v.msg[:600])
        print("VIOLATION property=%s replay=%s" % (mod.PID, path))
        return 1
    except Exception:
        traceback.print_exc()
        return 2
    print("replay %s: property held" % path)
    return 0
