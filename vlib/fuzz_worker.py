"""Subprocess entry for atheris campaigns: python -m vlib.fuzz_worker <check-module> <stats-file> [libFuzzer args].

The check module provides fuzz_one(data: bytes) -> bool (non-trivial?) and raises harness.Violation when the
differential oracle inside the target fails; the failing input is written by libFuzzer to -artifact_prefix."""
import importlib
import json
import sys


def main():
    modname, stats_file = sys.argv[1], sys.argv[2]
    import atheris
    with atheris.instrument_imports(include=["pytezos.michelson.forge", "pytezos.crypto.encoding",
                                             "pytezos.michelson.types", "pytezos.michelson.micheline"]):
        import pytezos.crypto.encoding  # noqa: F401
        import pytezos.michelson.forge  # noqa: F401
        import pytezos.michelson.types  # noqa: F401
    mod = importlib.import_module("checks." + modname)
    from vlib.harness import Violation
    st = {"runs": 0, "nontrivial": 0, "classes": {}}

    def flush():
        with open(stats_file, "w") as f:
            json.dump(st, f)

    def one(data):
        st["runs"] += 1
        try:
            nt, label = mod.fuzz_one(data)
        except Violation:
            flush()
            raise
        if nt:
            st["nontrivial"] += 1
        st["classes"][label] = st["classes"].get(label, 0) + 1
        if st["runs"] % 20000 == 0:
            flush()

    atheris.Setup([sys.argv[0]] + sys.argv[3:], one)
    atheris.Fuzz()


if __name__ == "__main__":
    main()
