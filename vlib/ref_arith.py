"""Reference arithmetic / numeric conversions (Michelson reference), over Python ints/bytes/bools.

apply(op, types, values) -> ("ok", result_type, value) | ("fail", reason) ; option results use None / ("Some", v)."""
from vlib.ref_values import T

MUTEZ_MAX = 2 ** 63 - 1
INTLIKE = ("int", "nat")

BINARY = {
    "ADD": {("nat", "nat"): "nat", ("nat", "int"): "int", ("int", "nat"): "int", ("int", "int"): "int",
            ("timestamp", "int"): "timestamp", ("int", "timestamp"): "timestamp", ("mutez", "mutez"): "mutez"},
    "SUB": {("nat", "nat"): "int", ("nat", "int"): "int", ("int", "nat"): "int", ("int", "int"): "int",
            ("timestamp", "int"): "timestamp", ("timestamp", "timestamp"): "int"},
    "SUB_MUTEZ": {("mutez", "mutez"): "option mutez"},
    "MUL": {("nat", "nat"): "nat", ("nat", "int"): "int", ("int", "nat"): "int", ("int", "int"): "int",
            ("mutez", "nat"): "mutez", ("nat", "mutez"): "mutez"},
    "EDIV": {("nat", "nat"): ("nat", "nat"), ("nat", "int"): ("int", "nat"), ("int", "nat"): ("int", "nat"),
             ("int", "int"): ("int", "nat"), ("mutez", "nat"): ("mutez", "mutez"), ("mutez", "mutez"): ("nat", "mutez")},
    "LSL": {("nat", "nat"): "nat"}, "LSR": {("nat", "nat"): "nat"},
    "AND": {("nat", "nat"): "nat", ("int", "nat"): "nat", ("bool", "bool"): "bool"},
    "OR": {("nat", "nat"): "nat", ("bool", "bool"): "bool"},
    "XOR": {("nat", "nat"): "nat", ("bool", "bool"): "bool"},
}
UNARY = {
    "ABS": {"int": "nat"}, "NEG": {"int": "int", "nat": "int"}, "ISNAT": {"int": "option nat"},
    "INT": {"nat": "int", "bytes": "int"}, "NAT": {"bytes": "nat"}, "BYTES": {"int": "bytes", "nat": "bytes"},
    "NOT": {"int": "int", "nat": "int", "bool": "bool"},
}


def _ty(s):
    if isinstance(s, tuple):
        return T("option", T("pair", T(s[0]), T(s[1])))
    if s.startswith("option "):
        return T("option", T(s[7:]))
    return T(s)


def int_to_bytes(v, signed):
    if v == 0:
        return b""
    if not signed:
        return v.to_bytes((v.bit_length() + 7) // 8, "big")
    n = 1
    while True:
        try:
            return v.to_bytes(n, "big", signed=True)
        except OverflowError:
            n += 1


def apply(op, types, vals):
    if op in UNARY:
        (ta,), (a,) = types, vals
        rt = _ty(UNARY[op][ta])
        if op == "ABS":
            return ("ok", rt, abs(a))
        if op == "NEG":
            return ("ok", rt, -a)
        if op == "ISNAT":
            return ("ok", rt, ("Some", a) if a >= 0 else None)
        if op == "INT":
            return ("ok", rt, a if ta == "nat" else int.from_bytes(a, "big", signed=True))
        if op == "NAT":
            return ("ok", rt, int.from_bytes(a, "big"))
        if op == "BYTES":
            return ("ok", rt, int_to_bytes(a, signed=(ta == "int")))
        if op == "NOT":
            return ("ok", rt, (not a) if ta == "bool" else ~a)
    (ta, tb), (a, b) = types, vals
    spec = BINARY[op][(ta, tb)]
    rt = _ty(spec)
    if op == "ADD":
        r = a + b
        if rt["prim"] == "mutez" and r > MUTEZ_MAX:
            return ("fail", "mutez overflow")
        return ("ok", rt, r)
    if op == "SUB":
        return ("ok", rt, a - b)
    if op == "SUB_MUTEZ":
        return ("ok", rt, ("Some", a - b) if a >= b else None)
    if op == "MUL":
        r = a * b
        if rt["prim"] == "mutez" and r > MUTEZ_MAX:
            return ("fail", "mutez overflow")
        return ("ok", rt, r)
    if op == "EDIV":
        if b == 0:
            return ("ok", rt, None)
        q, r = divmod(a, abs(b))
        if b < 0:
            q = -q
        assert a == q * b + r and 0 <= r < abs(b)
        return ("ok", rt, ("Some", (q, r)))
    if op in ("LSL", "LSR"):
        if b > 256:
            return ("fail", "shift overflow")
        return ("ok", rt, a << b if op == "LSL" else a >> b)
    if op == "AND":
        return ("ok", rt, (a and b) if ta == "bool" else a & b)
    if op == "OR":
        return ("ok", rt, (a or b) if ta == "bool" else a | b)
    if op == "XOR":
        return ("ok", rt, (a != b) if ta == "bool" else a ^ b)
    raise ValueError(op)
