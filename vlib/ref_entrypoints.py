"""Reference entrypoint table of a parameter type (Tezos semantics), independent of pytezos.

Entrypoints = nodes carrying a %field annotation that are reachable from the root through `or` nodes only (inner
`or` nodes and leaves alike), each with its path of Left/Right steps, plus the root entrypoint."""


def field(t):
    for a in t.get("annots", []):
        if a.startswith("%") and len(a) > 1:
            return a[1:]
    return None


def annotated(t, path=""):
    """[(name, path, type)] in depth-first order (node before its children)."""
    out = []
    if t["prim"] == "or":
        for i, a in enumerate(t.get("args", [])):
            n = field(a)
            if n is not None:
                out.append((n, path + str(i), a))
            out.extend(annotated(a, path + str(i)))
    return out


def table(t):
    """(entries, root_names, duplicates): entries = {name: (path, type)}; root_names = acceptable names of the root
    entrypoint; duplicates = True when two nodes carry the same name (Tezos rejects the parameter)."""
    entries = {}
    dup = False
    for n, p, a in annotated(t):
        if n in entries:
            dup = True
        else:
            entries[n] = (p, a)
    rn = field(t)
    if rn is not None:
        if rn in entries:
            dup = True
        roots = {rn}
    elif "default" in entries:
        roots = {"root"}  # no name addresses the root in Tezos; pytezos calls it `root`
    else:
        roots = {"default"}
    return entries, roots, dup


def wrap(value, path):
    for step in reversed(path):
        value = {"prim": "Left" if step == "0" else "Right", "args": [value]}
    return value


def leaf_paths(t, path=""):
    """All (path, type) of non-`or` leaves of the or-tree."""
    if t["prim"] == "or":
        out = []
        for i, a in enumerate(t.get("args", [])):
            out.extend(leaf_paths(a, path + str(i)))
        return out
    return [(path, t)]
