"""Reference operation-group binary codec (independent of pytezos), from the protocol's operation encoding schema.

Kinds: activate_account(4) failing_noop(17) reveal(107) transaction(108) origination(109) delegation(110)
register_global_constant(111) transfer_ticket(158) smart_rollup_add_messages(201)
smart_rollup_execute_outbox_message(206); consensus 'endorsement'(0, legacy: level only) for watermark tests.
"""
from __future__ import annotations

from typing import Any, Dict, List

from vlib import ref_crypto as rc
from vlib import ref_micheline as rm

TAGS = {"activate_account": 4, "failing_noop": 17, "reveal": 107, "transaction": 108, "origination": 109,
        "delegation": 110, "register_global_constant": 111, "transfer_ticket": 158,
        "smart_rollup_add_messages": 201, "smart_rollup_execute_outbox_message": 206}
KIND = {v: k for k, v in TAGS.items()}
MANAGER = {107, 108, 109, 110, 111, 158, 201, 206}
ENTRYPOINTS = ["default", "root", "do", "set_delegate", "remove_delegate", "deposit", "stake", "unstake",
               "finalize_unstake", "set_delegate_parameters"]
PKH_TAG = {"tz1": 0, "tz2": 1, "tz3": 2, "tz4": 3}
PKH_NAME = {v: k for k, v in PKH_TAG.items()}
PK_TAG = {"edpk": (0, 32), "sppk": (1, 33), "p2pk": (2, 33), "BLpk": (3, 48)}
PK_NAME = {v[0]: (k, v[1]) for k, v in PK_TAG.items()}


class OpDecodeError(Exception):
    pass


def _b58(s: str):
    r = rc.tz_decode(s)
    if r is None:
        raise ValueError("bad base58 " + s)
    return r


def enc_pkh(s: str) -> bytes:
    kind, h = _b58(s)
    return bytes([PKH_TAG[kind]]) + h


def enc_contract(s: str) -> bytes:
    kind, h = _b58(s)
    if kind in PKH_TAG:
        return b"\x00" + bytes([PKH_TAG[kind]]) + h
    return {"KT1": b"\x01", "txr1": b"\x02", "sr1": b"\x03"}[kind] + h + b"\x00"


def enc_pk(s: str) -> bytes:
    kind, h = _b58(s)
    return bytes([PK_TAG[kind][0]]) + h


def dyn(b: bytes) -> bytes:
    return len(b).to_bytes(4, "big") + b


def enc_entrypoint(name: str) -> bytes:
    if name in ENTRYPOINTS:
        return bytes([ENTRYPOINTS.index(name)])
    raw = name.encode()
    assert len(raw) <= 31
    return b"\xff" + bytes([len(raw)]) + raw


def is_unit_default(params) -> bool:
    return params["entrypoint"] == "default" and rm.normalize(params["value"]) == {"prim": "Unit"}


def enc_content(c: Dict[str, Any]) -> bytes:
    k = c["kind"]
    out = bytes([TAGS[k]])
    if k == "activate_account":
        return out + _b58(c["pkh"])[1] + bytes.fromhex(c["secret"])
    if k == "failing_noop":
        return out + dyn(c["arbitrary"].encode())
    out += enc_pkh(c["source"])
    for f in ("fee", "counter", "gas_limit", "storage_limit"):
        out += rm.zarith_nat(int(c[f]))
    if k == "reveal":
        out += enc_pk(c["public_key"])
        if "proof" in c:
            out += b"\xff" + dyn(_b58(c["proof"])[1])
        else:
            out += b"\x00"
    elif k == "transaction":
        out += rm.zarith_nat(int(c["amount"])) + enc_contract(c["destination"])
        p = c.get("parameters")
        if p and not is_unit_default(p):
            out += b"\xff" + enc_entrypoint(p["entrypoint"]) + dyn(rm.encode(p["value"]))
        else:
            out += b"\x00"
    elif k == "origination":
        out += rm.zarith_nat(int(c["balance"]))
        out += (b"\xff" + enc_pkh(c["delegate"])) if c.get("delegate") else b"\x00"
        out += dyn(rm.encode(c["script"]["code"])) + dyn(rm.encode(c["script"]["storage"]))
    elif k == "delegation":
        out += (b"\xff" + enc_pkh(c["delegate"])) if c.get("delegate") else b"\x00"
    elif k == "register_global_constant":
        out += dyn(rm.encode(c["value"]))
    elif k == "transfer_ticket":
        out += dyn(rm.encode(c["ticket_contents"])) + dyn(rm.encode(c["ticket_ty"]))
        out += enc_contract(c["ticket_ticketer"]) + rm.zarith_nat(int(c["ticket_amount"]))
        out += enc_contract(c["destination"]) + dyn(c["entrypoint"].encode())
    elif k == "smart_rollup_add_messages":
        out += dyn(b"".join(dyn(bytes.fromhex(m)) for m in c["message"]))
    elif k == "smart_rollup_execute_outbox_message":
        out += _b58(c["rollup"])[1] + _b58(c["cemented_commitment"])[1] + dyn(bytes.fromhex(c["output_proof"]))
    return out


def encode_group(g: Dict[str, Any]) -> bytes:
    return _b58(g["branch"])[1] + b"".join(enc_content(c) for c in g["contents"])


# ---- strict decoder -----------------------------------------------------------------------------
class _R:
    def __init__(self, d: bytes):
        self.d, self.p = d, 0

    def take(self, n):
        if self.p + n > len(self.d):
            raise OpDecodeError("truncated at %d (+%d of %d)" % (self.p, n, len(self.d)))
        v = self.d[self.p:self.p + n]
        self.p += n
        return v

    def u8(self):
        return self.take(1)[0]

    def nat(self):
        v, shift, n = 0, 0, 0
        while True:
            b = self.u8()
            n += 1
            v |= (b & 0x7F) << shift
            shift += 7
            if not b & 0x80:
                if n > 1 and b == 0:
                    raise OpDecodeError("non-minimal N")
                return v

    def dyn(self):
        n = int.from_bytes(self.take(4), "big")
        return self.take(n)

    def bool(self):
        b = self.u8()
        if b not in (0, 255):
            raise OpDecodeError("bad bool %d" % b)
        return b == 255

    def pkh(self):
        t = self.u8()
        if t not in PKH_NAME:
            raise OpDecodeError("bad pkh tag %d" % t)
        return rc.tz_encode(self.take(20), PKH_NAME[t])

    def contract(self):
        t = self.u8()
        if t == 0:
            return self.pkh()
        if t in (1, 2, 3):
            h = self.take(20)
            if self.u8() != 0:
                raise OpDecodeError("bad contract padding")
            return rc.tz_encode(h, {1: "KT1", 2: "txr1", 3: "sr1"}[t])
        raise OpDecodeError("bad contract tag %d" % t)

    def pk(self):
        t = self.u8()
        if t not in PK_NAME:
            raise OpDecodeError("bad pk tag %d" % t)
        name, n = PK_NAME[t]
        return rc.tz_encode(self.take(n), name)

    def micheline(self):
        try:
            return rm.decode(self.dyn())
        except rm.DecodeError as e:
            raise OpDecodeError("micheline: %s" % e)

    def entrypoint(self):
        t = self.u8()
        if t < len(ENTRYPOINTS):
            return ENTRYPOINTS[t]
        if t == 255:
            n = self.u8()
            if n > 31:
                raise OpDecodeError("entrypoint too long")
            return self.take(n).decode()
        raise OpDecodeError("bad entrypoint tag %d" % t)


def dec_content(r: _R) -> Dict[str, Any]:
    tag = r.u8()
    if tag not in KIND:
        raise OpDecodeError("unknown operation tag %d" % tag)
    k = KIND[tag]
    c: Dict[str, Any] = {"kind": k}
    if k == "activate_account":
        c["pkh"] = rc.tz_encode(r.take(20), "tz1")
        c["secret"] = r.take(20).hex()
        return c
    if k == "failing_noop":
        c["arbitrary"] = r.dyn().decode()
        return c
    c["source"] = r.pkh()
    for f in ("fee", "counter", "gas_limit", "storage_limit"):
        c[f] = str(r.nat())
    if k == "reveal":
        c["public_key"] = r.pk()
        if r.bool():
            c["proof"] = rc.tz_encode(r.dyn(), "BLsig")
    elif k == "transaction":
        c["amount"] = str(r.nat())
        c["destination"] = r.contract()
        if r.bool():
            ep = r.entrypoint()
            c["parameters"] = {"entrypoint": ep, "value": r.micheline()}
    elif k == "origination":
        c["balance"] = str(r.nat())
        if r.bool():
            c["delegate"] = r.pkh()
        c["script"] = {"code": r.micheline(), "storage": r.micheline()}
    elif k == "delegation":
        if r.bool():
            c["delegate"] = r.pkh()
    elif k == "register_global_constant":
        c["value"] = r.micheline()
    elif k == "transfer_ticket":
        c["ticket_contents"] = r.micheline()
        c["ticket_ty"] = r.micheline()
        c["ticket_ticketer"] = r.contract()
        c["ticket_amount"] = str(r.nat())
        c["destination"] = r.contract()
        c["entrypoint"] = r.dyn().decode()
    elif k == "smart_rollup_add_messages":
        body = _R(r.dyn())
        msgs = []
        while body.p < len(body.d):
            msgs.append(body.dyn().hex())
        c["message"] = msgs
    elif k == "smart_rollup_execute_outbox_message":
        c["rollup"] = rc.tz_encode(r.take(20), "sr1")
        c["cemented_commitment"] = rc.tz_encode(r.take(32), "src1")
        c["output_proof"] = r.dyn().hex()
    return c


def decode_group(data: bytes) -> Dict[str, Any]:
    r = _R(data)
    branch = rc.tz_encode(r.take(32), "B")
    contents: List[Dict[str, Any]] = []
    while r.p < len(data):
        contents.append(dec_content(r))
    if not contents:
        raise OpDecodeError("no contents")
    return {"branch": branch, "contents": contents}


def normalize_group(g: Dict[str, Any]) -> Dict[str, Any]:
    out = []
    for c in g["contents"]:
        n: Dict[str, Any] = {}
        for k, v in c.items():
            if k in ("fee", "counter", "gas_limit", "storage_limit", "amount", "balance", "ticket_amount"):
                n[k] = str(int(v))
            elif k in ("value", "ticket_contents", "ticket_ty"):
                n[k] = rm.normalize(v)
            elif k == "script":
                n[k] = {"code": rm.normalize(v["code"]), "storage": rm.normalize(v["storage"])}
            elif k == "parameters":
                if v and not is_unit_default(v):
                    n[k] = {"entrypoint": v["entrypoint"], "value": rm.normalize(v["value"])}
            elif k == "delegate":
                if v:
                    n[k] = v
            elif k in ("secret", "output_proof"):
                n[k] = v.lower()
            elif k == "message":
                n[k] = [m.lower() for m in v]
            else:
                n[k] = v
        out.append(n)
    return {"branch": g["branch"], "contents": out}
